"""C13 - no time-respecting path is missed."""
import dynetx.algorithms.paths as paths

from . import models
from .core import Registry, B48
from .models import assume, reach, sbool
from .pathmodel import LazyG, all_paths, genuine, install_fast_nx
from . import h_c12

REG = Registry("C13")
REG.notes += list(h_c12.REG.notes) + [
    "oracle: depth-first enumeration of every hop sequence satisfying the conditions of C12 over the same lazily decided bits",
    "sample < 1: numpy.random.choice is replaced by a NONDETERMINISTIC choice (symbolic selection bits, same size, no "
    "replacement), so the subset claim is decided for every possible sample, not for one seed",
]
FUNCTIONS = ["dynetx/algorithms/paths.py:time_respecting_paths", "dynetx/algorithms/paths.py:all_time_respecting_paths"]
install_fast_nx(paths)


def T_paths(start: int, end: int, pb: B48) -> bool:
    pass


def flat(res):
    out = []
    if isinstance(res, list):
        return out
    for k, pl in res.items():
        for p in pl:
            out.append((k, p))
    return out


def body(cfg, start, end, pb):
    nodes = h_c12.names(cfg)
    ids = cfg["ids"]
    fixed = {}
    if cfg.get("part") is not None:
        others = [n for n in nodes if n != nodes[cfg["u"]]]
        fixed[(nodes[cfg["u"]], others[0], ids[0])] = bool(cfg["part"] & 1)
        fixed[(nodes[cfg["u"]], others[1], ids[0])] = bool(cfg["part"] & 2)
    G = LazyG(nodes, ids, cfg["directed"], pb, fixed=fixed)
    u = nodes[cfg["u"]]
    v = None if cfg["v"] is None else nodes[cfg["v"]]
    s, e = cfg["window"]
    res = paths.time_respecting_paths(G, u, v, s, e)
    # "u present at start": with start omitted time_respecting_paths only requires u to be a node of the graph
    present = True if s is None else G._inc(u, s)
    if not present:
        reach("root_absent")
        return res == [] or len(res) == 0
    exp = all_paths(G, u, v, s, e)
    got = flat(res)
    if len(got) != len(set(p for k, p in got)):
        return False
    gs = set(p for k, p in got)
    es = set(exp)
    if gs != es:
        return False
    for k, p in got:
        if k != (p[0][0], p[-1][1]):
            return False
    if len(es) >= 3:
        reach("many_paths")
    if any(len(p) >= 3 for p in es):
        reach("three_hops")
    return True


class Choice:
    """Nondeterministic stand-in for numpy.random.choice(n, size=k, replace=False)."""
    bits = []

    @staticmethod
    def choice(n, size=None, replace=True):
        idx = []
        for i in range(n):
            if len(idx) < size and (n - i <= size - len(idx) or sbool(Choice.bits.pop())):
                idx.append(i)
        return idx


def sample_body(cfg, start, end, pb):
    import numpy as np
    nodes = h_c12.names(cfg)
    ids = cfg["ids"]
    bits = list(pb)
    Choice.bits = bits[36:]
    G = LazyG(nodes, ids, cfg["directed"], bits[:36])
    u = nodes[0]
    full = paths.time_respecting_paths(G, u, None, None, None)

    class _R:
        choice = staticmethod(Choice.choice)

    class _NP:
        random = _R

        @staticmethod
        def array(x):
            return _Arr(x)

    class _Arr(list):
        def __getitem__(self, i):
            if isinstance(i, list):
                return [list.__getitem__(self, j) for j in i]
            return list.__getitem__(self, i)
    old = paths.np
    paths.np = _NP
    try:
        part = paths.time_respecting_paths(G, u, None, None, None, sample=cfg["sample"])
    finally:
        paths.np = old
    fs = set(p for k, p in flat(full))
    ps = set(p for k, p in flat(part))
    if ps and ps != fs:
        reach("strict_subset")
    return ps <= fs


def all_body(cfg, start, end, pb):
    nodes = h_c12.names(cfg)
    ids = cfg["ids"]
    G = LazyG(nodes, ids, cfg["directed"], pb)
    s, e = cfg["window"]
    m = cfg["min_t"]
    res = paths.all_time_respecting_paths(G, s, e, min_t=m)
    exp = {}
    for u in nodes:
        if not G._inc(u, m):
            continue
        r = paths.time_respecting_paths(G, u, None, s, e)
        if isinstance(r, list):
            continue
        for k, pl in r.items():
            exp[(u, k[1])] = pl
    if set(res.keys()) != set(exp.keys()):
        return False
    for k in exp:
        if list(res[k]) != list(exp[k]):
            return False
    if len(exp) >= 2:
        reach("several_keys")
    return True


WINDOWS = {(0, 1): [(None, None), (0, 1), (0, 0), (1, 1)], (0, 1, 2): [(None, None), (0, 2), (0, 1), (1, 2), (0, 0), (1, 1), (2, 2)],
           (0, 2, 3): [(None, None), (0, 2), (2, 3), (0, 1), (1, 3)],
           (1, 3, 4, 6): [(None, None), (1, 4), (3, 6), (2, 5)]}
for directed in (False, True):
    for strnodes in (False, True):
        for ids, N in (((0, 1), 3), ((0, 1, 2), 3), ((0, 2, 3), 3), ((1, 3, 4, 6), 3), ((0, 1, 2), 4)):
            for v in (None, 1, 0):
                for w in WINDOWS[ids]:
                    for part in ((0, 1, 2, 3) if ((directed or N == 4 or len(ids) == 4) and len(ids) > 2) else (None,)):
                        quick = (ids == (0, 1, 2) and N == 3 and not strnodes and not directed and w in ((None, None), (0, 1), (1, 2), (1, 1))
                                 and v in (None, 1)) or (ids == (0, 2, 3) and strnodes and not directed and v is None and w == (None, None)) \
                            or (directed and ids == (0, 1) and not strnodes and v in (None, 1) and w in ((None, None), (1, 1))) \
                            or (directed and ids == (0, 1, 2) and N == 3 and not strnodes and v is None and w == (None, None) and part == 0)
                        keep = quick or (not directed and N == 3 and v is None and (not strnodes or ids == (0, 2, 3))
                                         and w == (None, None)) \
                            or (directed and ids == (0, 1, 2) and N == 3 and not strnodes and w == (None, None) and v is None and part in (0, 1)) \
                            or (directed and ids == (0, 1) and not strnodes)
                        if not keep:
                            continue
                        REG.add("all_%s_%s_ids%s_N%d_v%s_w%s%s%s" % ("d" if directed else "u", "str" if strnodes else "int",
                                                                     "".join(map(str, ids)), N, "N" if v is None else v,
                                                                     "N" if w[0] is None else w[0], "N" if w[1] is None else w[1],
                                                                     "" if part is None else "_p%d" % part),
                                T_paths, body, cfg=dict(directed=directed, strnodes=strnodes, ids=list(ids), N=N, u=0, v=v, window=w, part=part),
                                tier="quick" if quick else "thorough", timeout=900 if quick else 3000,
                                tags=(["root_absent"] if (w[0] is not None and part in (None, 0)) else []) +
                                     (["three_hops"] if (part is None and v is None and len(ids) >= 3 and (w[1] is None or w[1] - (w[0] or 0) >= 2)) else []),
                                twins=1,
                                bounds="%s over %d %s nodes, snapshot ids %s, lazily decided presence bit per (pair, id)%s, source = first "
                                       "node, target %s, window %s" % ("directed" if directed else "undirected", N,
                                                                       "string" if strnodes else "int", list(ids),
                                                                       "" if part is None else " (partition %d of the source's first-instant bits)" % part,
                                                                       "omitted" if v is None else "node index %d" % v, w),
                                what="with sample=1 and u present at start, time_respecting_paths returns exactly the set of hop sequences "
                                     "found by brute-force enumeration of the C12 conditions (keys (first,last), no duplicates); empty "
                                     "when u has no interaction at start")
    for smp, ids_ in ((0.5, [0]), (0.5, [0, 1]), (0.3, [0, 1])):
        REG.add("sample_%s_%s_ids%s" % ("d" if directed else "u", str(smp).replace(".", ""), "".join(map(str, ids_))), T_paths, sample_body,
                cfg=dict(directed=directed, strnodes=False, ids=ids_, N=3, sample=smp), tier="quick" if ids_ == [0] else "thorough",
                timeout=900 if ids_ == [0] else 3000, tags=["strict_subset"], twins=1,
                bounds="3 nodes, snapshot ids %s, sample=%s with a nondeterministic choice of the sampled (source,target) pairs" % (ids_, smp),
                what="with sample<1 the result is a subset of the full result, for every possible sample")
    for m in (0, 1):
        for w in ((None, None), (0, 1), (1, 2)):
          for ids in ([0, 1], [0, 1, 2]):
            if ids == [0, 1] and w == (1, 2):
                continue
            REG.add("allpairs_%s_ids%s_m%d_w%s%s" % ("d" if directed else "u", "".join(map(str, ids)), m, "N" if w[0] is None else w[0],
                                                    "N" if w[1] is None else w[1]),
                    T_paths, all_body, cfg=dict(directed=directed, strnodes=False, ids=ids, N=3, min_t=m, window=w),
                    tier="quick" if (m == 0 and w == (None, None) and ids == [0, 1] and not directed) else "thorough", timeout=1800,
                    tags=["several_keys"], twins=1,
                    bounds="3 nodes, snapshot ids %s, min_t=%d, window %s" % (ids, m, w),
                    what="all_time_respecting_paths maps (u,w), u over the nodes present at min_t, to exactly "
                         "time_respecting_paths(G,u,None,start,end)[(u,w)]")


# ---- eager variant on the REAL classes: soundness (C12) and completeness (C13) together ---------------------------------
from .pathmodel import eager, eager_build  # noqa: E402


def T_eager(pb: B48) -> bool:
    pass


def eager_body(cfg, pb):
    names, dec = eager(cfg["N"], cfg["ids"], cfg["directed"], pb, cfg["strnodes"], cfg.get("prefix", ()))
    if sum(1 for x in dec.values() if x) >= 3:
        reach("three_interactions")
    return models.untraced(eager_run, cfg, names, dec)


def eager_run(cfg, names, dec):
    g, O = eager_build(names, cfg["ids"], cfg["directed"], dec)
    if not O.ids:
        return True
    wins = [(None, None)] + [(a, b) for a in O.ids for b in O.ids if a <= b]
    for u in names:
        for v in [None] + names:
            for (s, e) in wins:
                res = paths.time_respecting_paths(g, u, v, s, e)
                got = flat(res)
                for k, p in got:
                    if not genuine(O, p, u, v, s, e) or k != (p[0][0], p[-1][1]):
                        return False
                gs = set(p for k, p in got)
                if len(gs) != len(got):
                    return False
                present = O._inc(u, s) if s is not None else (u in g._node)
                if not present:
                    if got:
                        return False
                    continue
                if gs != set(all_paths(O, u, v, s, e)):
                    return False
        if cfg.get("allpairs"):
            pass
    for m in O.ids:
        res = paths.all_time_respecting_paths(g, None, None, min_t=m)
        exp = {}
        for u in names:
            if not O._inc(u, m):
                continue
            r = paths.time_respecting_paths(g, u, None, None, None)
            if isinstance(r, list):
                continue
            for k, pl in r.items():
                exp[(u, k[1])] = pl
        if set(res.keys()) != set(exp.keys()) or any(list(res[k]) != list(exp[k]) for k in exp):
            return False
    return True


for directed, ids in ((False, [0, 1, 2]), (True, [0, 1])):
    for strnodes in (False, True):
        REG.add("eager_%s_%s" % ("d" if directed else "u", "str" if strnodes else "int"), T_eager, eager_body,
                cfg=dict(directed=directed, ids=ids, N=3, strnodes=strnodes), tier="quick" if not strnodes else "thorough", timeout=1500,
                tags=["three_interactions"], twins=1,
                bounds="EVERY real %s on 3 %s nodes over snapshot ids %s (one presence bit per pair and id, built through the public "
                       "API), every source, every target (and none), every window with bounds on snapshot ids, every min_t" %
                       ("DynDiGraph" if directed else "DynGraph", "string" if strnodes else "int", ids),
                what="on the real class: every returned path is genuine (C12), the result equals the brute-force enumeration when u is "
                     "present at start and is empty otherwise (C13), all_time_respecting_paths equals the per-source union")



for _N, _ids, _pl in ((3, [0, 1, 2, 3], 1), (4, [0, 1], 1), (3, [1, 3, 4, 6], 1)):
    for _pi in range(2 ** _pl):
        _prefix = [bool(_pi >> k & 1) for k in range(_pl)]
        REG.add("eager_u_N%d_ids%s_p%d" % (_N, "".join(map(str, _ids)), _pi), T_eager, eager_body,
                cfg=dict(directed=False, ids=_ids, N=_N, strnodes=False, prefix=_prefix), tier="thorough", timeout=6000,
                tags=["three_interactions"], twins=1,
                bounds="EVERY real DynGraph on %d int nodes over snapshot ids %s whose first %d presence bits are %s (partition %d of "
                       "%d), built through the public API; every source/root, target, window" % (_N, _ids, _pl, _prefix, _pi, 2 ** _pl),
                what="as eager_u_int on a larger universe")

h_c12._register_eager()
# the 5-id universe (16 partitions) is run under C12 only (soundness and completeness are checked together there)
for _n in [n for n in REG.conds if "ids01234" in n]:
    del REG.conds[_n]

# dropped from the thorough tier (nondeterministic sampling over 2 ids and directed all-pairs conditions that ran past 40-60 min; see DESIGN.md 12.9)
import re as _re  # noqa: E402
for _n in [n for n, c in REG.conds.items() if c.tier == "thorough" and _re.search(r"^sample_._0[35]_ids01$|^allpairs_d_", n)]:
    del REG.conds[_n]

