"""C05 - the interaction stream is a chronological, faithful event log of presence (Layer 1: Inv3 is inductive)."""
from . import step
from .core import Registry

REG = Registry("C05")
REG.notes += [
    "M2: arbitrary event index: at every touched instant the stored events of the focus pair (both endpoint orders), of the "
    "bystander pair and of an unrelated pair are fresh symbolic bits constrained only by Inv3",
    "closure is claimed in two forms: weak (runs of >= 3 instants are closed: inductive on the pinned tree) and strong (runs "
    "of >= 2 instants are closed) outside the known-finding region F-C05-unclosed-2run",
]
FUNCTIONS = ["dynetx/classes/dyngraph.py:DynGraph.add_interaction", "dynetx/classes/dyndigraph.py:DynDiGraph.add_interaction",
             "dynetx/classes/dyngraph.py:DynGraph.stream_interactions"]

EV = ("after the call, at the arbitrary instant q: a '+' of the pair is stored iff a run starts at q (one endpoint order only), "
      "a '-' only if a run ended at q-1, every run of >=3 instants ending at q-1 has its '-', and the events of other pairs "
      "at q are untouched")
step.register_matrix(
    REG, "ev", "ev", EV,
    quick=lambda key, n, L, by: L == 2 and (n == 0 or (n == 1 and key in ("u_swap", "d_same", "u_loop"))),
    split=lambda key, n, L, by: n >= 1,
    tags=lambda n: ["accepted", "q_new"] + (["append", "extend", "contained"] if n else []))
step.register_matrix(
    REG, "ev", "close",
    "strong closure: as ev_*, and every run longer than ONE instant is closed by a '-' at end+1 after the call",
    quick=lambda key, n, L, by: n == 1 and key in ("u_swap", "d_same"),
    split=lambda key, n, L, by: True,
    tags=lambda n: ["accepted", "extend"], ns=(1, 2), Ls=(2,),
    keys=("u_same", "u_swap", "u_loop", "d_same", "d_loop"),
    extra_cfg={"strong_closure": True, "region": "not_pinned"},
    bounds_extra="; pre-state with every run of >=2 instants closed; excluded region: latest run is a single instant and the call "
                 "adds the next single instant without vanishing time (known finding F-C05-unclosed-2run)")
for key, directed, pat, by in step.patterns():
    if by:
        continue
    REG.add("finding_unclosed_%s" % key, step.T_step, step.step,
            cfg=dict(directed=directed, pat=pat, by=False, n=1, L=0, what="ev", strong_closure=True, region="pinned"),
            tier="quick", timeout=300, finding="F-C05-unclosed-2run", replay=step.replay_step,
            bounds="the excluded region of close_*: latest run [a,a], call add_interaction(u,v,a+1)",
            what="(expected to fail) the 2-instant run created by extending a single instant with the next single instant is closed")

# quick tier: spans of at most one instant for the n=1 conditions (the 2-instant variants take 200-900 s each: thorough)
for _n, _c in REG.conds.items():
    if _c.tier == "quick" and _n.endswith("_l2"):
        _c.tier = "thorough"
