"""C05 - the interaction stream is a chronological, faithful event log of presence (Layer 1: Inv3 is inductive)."""
from . import step
from .core import Registry

REG = Registry("C05")
REG.notes += [
    "M2: arbitrary event index: at every touched instant the stored events of the focus pair (both endpoint orders), of the "
    "bystander pair and of an unrelated pair are fresh symbolic bits constrained only by Inv3",
    "closure is claimed in two forms: weak (runs of >= 3 instants are closed: inductive on the pinned tree) and strong (runs "
    "of >= 2 instants are closed) outside the known-finding region F-C05-unclosed-2run",
]
FUNCTIONS = ["dynetx/classes/dyngraph.py:DynGraph.add_interaction", "dynetx/classes/dyndigraph.py:DynDiGraph.add_interaction",
             "dynetx/classes/dyngraph.py:DynGraph.stream_interactions"]

EV = ("after the call, at the arbitrary instant q: a '+' of the pair is stored iff a run starts at q (one endpoint order only), "
      "a '-' only if a run ended at q-1, every run of >=3 instants ending at q-1 has its '-', and the events of other pairs "
      "at q are untouched")
step.register_matrix(
    REG, "ev", "ev", EV,
    quick=lambda key, n, L, by: L == 2 and (n == 0 or (n == 1 and key in ("u_swap", "d_same", "u_loop"))),
    split=lambda key, n, L, by: n >= 1,
    tags=lambda n: ["accepted", "q_new"] + (["append", "extend", "contained"] if n else []))
step.register_matrix(
    REG, "ev", "close",
    "strong closure: as ev_*, and every run longer than ONE instant is closed by a '-' at end+1 after the call",
    quick=lambda key, n, L, by: n == 1 and key in ("u_swap", "d_same"),
    split=lambda key, n, L, by: True,
    tags=lambda n: ["accepted", "extend"], ns=(1, 2), Ls=(2,),
    keys=("u_same", "u_swap", "u_loop", "d_same", "d_loop"),
    extra_cfg={"strong_closure": True, "region": "not_pinned"},
    bounds_extra="; pre-state with every run of >=2 instants closed; excluded region: latest run is a single instant and the call "
                 "adds the next single instant without vanishing time (known finding F-C05-unclosed-2run)")
for key, directed, pat, by in step.patterns():
    if by:
        continue
    REG.add("finding_unclosed_%s" % key, step.T_step, step.step,
            cfg=dict(directed=directed, pat=pat, by=False, n=1, L=0, what="ev", strong_closure=True, region="pinned"),
            tier="quick", timeout=300, finding="F-C05-unclosed-2run", replay=step.replay_step,
            bounds="the excluded region of close_*: latest run [a,a], call add_interaction(u,v,a+1)",
            what="(expected to fail) the 2-instant run created by extending a single instant with the next single instant is closed")

# quick tier: spans of at most one instant for the n=1 conditions (the 2-instant variants take 200-900 s each: thorough)
for _n, _c in REG.conds.items():
    if _c.tier == "quick" and _n.endswith("_l2"):
        _c.tier = "thorough"


# ---- Layer 2: stream_interactions() is chronological, repeat-free, and replays to the presence relation ------------------
import dynetx as dn  # noqa: E402
from . import build, inv, models, oracle  # noqa: E402
from .h_c10 import SHAPES as L2_SHAPES, mk as l2_mk  # noqa: E402
from .models import reach, sbool  # noqa: E402

_w = dn.DynGraph()
_w.add_interaction(1, 2, 0, 3)
list(_w.stream_interactions()), list(dn.stream_interactions(_w))


def T_l2(s0: int, s1: int, s2: int, q: int) -> bool:
    pass


def stream_body(cfg, s0, s1, s2, q):
    directed = cfg["directed"]
    g, pairs = l2_mk(cfg, [s0, s1, s2])
    st = list(g.stream_interactions())
    st2 = list(dn.stream_interactions(g))
    if len(st) != len(st2):
        return False
    prev = None
    for i, ev in enumerate(st):
        if len(ev) != 4 or ev[2] not in ("+", "-"):
            return False
        e2 = st2[i]
        if (ev[0], ev[1], ev[2]) != (e2[0], e2[1], e2[2]) or sbool(ev[3] != e2[3]):
            return False
        if prev is not None and sbool(prev > ev[3]):
            return False                                   # chronological
        prev = ev[3]
        for ev0 in st[:i]:
            samepair = (ev0[0], ev0[1]) == (ev[0], ev[1]) or (not directed and (ev0[1], ev0[0]) == (ev[0], ev[1]))
            if samepair and ev0[2] == ev[2] and sbool(ev0[3] == ev[3]):
                return False                               # never repeats a (pair, op, t)
    if len(set((e[0], e[1]) for e in st)) > 1:
        reach("two_pairs_in_stream")
    # replaying the stream reconstructs presence ('+' appears, following '-' vanishes, unclosed '+' = that instant)
    runs = {}
    openat = {}
    for (u, v, op, t) in st:
        key = (u, v) if (directed or (u, v) in [(x, y) for (x, y, _) in pairs]) else (v, u)
        if op == "+":
            if key in openat:
                runs.setdefault(key, []).append([openat[key], openat[key]])
            openat[key] = t
        else:
            if key not in openat:
                return False                               # a '-' without a preceding '+' of its pair
            runs.setdefault(key, []).append([openat[key], t - 1])
            del openat[key]
    for key in openat:
        runs.setdefault(key, []).append([openat[key], openat[key]])
    for (u, v, tl) in pairs:
        exp = sbool(inv.present_at(tl, q))
        got = sbool(inv.present_at(runs.get((u, v), []), q))
        if exp:
            reach("present_at_q")
        if got != exp:
            return False
    return True


for _directed in (False, True):
    for _shape in L2_SHAPES:
        if _shape.startswith("recip") and not _directed:
            continue
        if _shape == "unclosed2":
            continue
        REG.add("stream_%s_%s" % ("d" if _directed else "u", _shape), T_l2, stream_body, cfg=dict(directed=_directed, shape=_shape),
                tier="quick", timeout=900,
                tags=["present_at_q"] + (["two_pairs_in_stream"] if len(L2_SHAPES[_shape]) > 1 else []), twins=1,
                bounds="%s with interactions %s (u, v, run lengths-1, closing flags), unbounded symbolic run starts, explicit event "
                       "index satisfying Inv3 (no unclosed 2-instant run: F-C05-unclosed-2run); unbounded q" %
                       ("DynDiGraph" if _directed else "DynGraph", L2_SHAPES[_shape]),
                what="stream_interactions() (and dn.stream_interactions) yields 4-tuples in non-decreasing t, never repeats a (pair, "
                     "op, t), every '-' follows a '+' of its pair, and replaying it reconstructs the presence relation at q")


# ---- one call on an EXPLICIT two-pair state (M3): the events of the other pair survive, whatever instants the two share ------
def T_call(a: int, c: int, t: int, l: int, q: int) -> bool:
    pass


def call_body(cfg, a, c, t, l, q):
    directed = cfg["directed"]
    g = build.new_graph(directed)
    la, lc = cfg["lens"]
    other = (2, 1) if directed else (2, 3)
    build.put_pair(g, 1, 2, [[a, a + la]])
    build.put_pair(g, other[0], other[1], [[c, c + lc]])
    models.assume((0 <= l) & (l <= cfg["L"]))
    e = None if l == 0 else t + l
    try:
        g.add_interaction(1, 2, t, e)
    except ValueError:
        reach("rejected")
        return sbool(t < a)
    if sbool(t < a):
        return False
    if sbool((t <= c + lc + 1) & (c + lc + 1 <= t + l)):
        reach("touches_other_pairs_end")
    # the other pair keeps its timeline; Inv1-Inv3 with weak closure hold at q for both pairs
    otl = (g._succ if directed else g._adj)[other[0]][other[1]]['t']
    if not build.tl_equal(otl, [[c, c + lc]]):
        return False
    return build.wellformed_at(g, q, minlen=3)


for _directed in (False, True):
    for _lens in ((1, 2), (0, 3), (2, 2)):
        REG.add("call_%s_%d%d" % ("d_recip" if _directed else "u_share", _lens[0], _lens[1]), T_call, call_body,
                cfg=dict(directed=_directed, lens=_lens, L=2), tier="quick" if _lens == (1, 2) else "thorough", timeout=900,
                tags=["rejected", "touches_other_pairs_end"], twins=1,
                bounds="explicit state: pair (1,2) with one run of %d instants and pair %s with one closed run of %d instants, unbounded "
                       "symbolic starts; one add_interaction(1,2,t[,e]) with unbounded t and span <= 2; unbounded q" %
                       (_lens[0] + 1, "(2,1)" if _directed else "(2,3)", _lens[1] + 1),
                what="after the call both pairs satisfy Inv1-Inv3 at q (in particular the other pair keeps its closing '-' event even "
                     "when the call touches the instant at which it is stored) and the other pair's timeline is unchanged")
