"""Driver: runs the conditions of one property in parallel worker processes, replays counterexamples natively,
applies the known-findings protocol and writes evidence/<id>.json.  Exit 0 = held on everything explored,
1 = reproduced violation(s) not listed as known findings, 3 = inconclusive / harness error."""
import argparse
import concurrent.futures
import hashlib
import importlib
import json
import os
import re
import subprocess
import sys
import tempfile
import time

VERIF = os.path.dirname(os.path.dirname(os.path.abspath(__file__)))
# the tree under test; always /repo for registered commands.  DYNVERIF_REPO is a development aid used only by
# tools/seeds_matrix.sh to run the checks against scratch worktrees carrying a seeded defect.
REPO = os.environ.get("DYNVERIF_REPO", "/repo").rstrip("/")
PY = os.path.join(VERIF, ".venv", "bin", "python")
ANCHOR_GLOB = ["dynetx/classes/dyngraph.py", "dynetx/classes/dyndigraph.py", "dynetx/classes/function.py",
               "dynetx/readwrite/edgelist.py", "dynetx/readwrite/json_graph/node_link.py",
               "dynetx/algorithms/paths.py", "dynetx/algorithms/assortativity.py", "dynetx/utils/decorators.py",
               "dynetx/utils/transform.py"]
CONTRACT_RE = re.compile(r"^\s*(pre|post|inv|raises)\s*:", re.M)


def env(native=False):
    e = dict(os.environ)
    e["PYTHONPATH"] = REPO + os.pathsep + VERIF
    e["PYTHONDONTWRITEBYTECODE"] = "1"
    e["PYTHONHASHSEED"] = "0"
    e.pop("DYNVERIF_NATIVE", None)
    if native:
        e["DYNVERIF_NATIVE"] = "1"
    return e


def run_worker(prop, cond, mode, arg, wall, native=False):
    cmd = [PY, "-m", "dynverif.worker", prop, cond, mode, arg]
    t0 = time.time()
    try:
        p = subprocess.run(cmd, cwd=VERIF, env=env(native), capture_output=True, text=True, timeout=wall)
    except subprocess.TimeoutExpired:
        return {"cond": cond, "status": "UNKNOWN", "message": "wall-clock timeout after %ds" % wall, "wall": wall}
    for line in reversed(p.stdout.splitlines()):
        if line.startswith("RESULT "):
            r = json.loads(line[7:])
            r.setdefault("wall", round(time.time() - t0, 2))
            return r
    return {"cond": cond, "status": "ERROR", "message": "worker produced no result (rc=%s): %s" %
            (p.returncode, (p.stderr or p.stdout)[-1500:]), "wall": round(time.time() - t0, 2)}


def native_jobs(prop, cond, jobs):
    with tempfile.NamedTemporaryFile("w", suffix=".json", delete=False) as f:
        json.dump(jobs, f)
        path = f.name
    try:
        return run_worker(prop, cond, "native", path, 300, native=True)
    finally:
        os.unlink(path)


def contract_scan():
    """No helper, model, oracle or library function may carry a PEP316 contract (DESIGN section 2)."""
    import ast
    bad = []
    roots = [os.path.join(VERIF, "dynverif"), REPO + "/dynetx"]
    for root in roots:
        for dp, dn, fns in os.walk(root):
            for fn in fns:
                if not fn.endswith(".py"):
                    continue
                p = os.path.join(dp, fn)
                src = open(p, encoding="utf-8", errors="replace").read()
                if not CONTRACT_RE.search(src):
                    continue
                try:
                    tree = ast.parse(src)
                except SyntaxError:
                    continue
                for node in ast.walk(tree):
                    if isinstance(node, (ast.FunctionDef, ast.ClassDef, ast.AsyncFunctionDef)):
                        d = ast.get_docstring(node)
                        if d and CONTRACT_RE.search(d):
                            if p.endswith("dynverif/core.py") and node.name in ("cond", "twin"):
                                continue
                            bad.append("%s:%s" % (p, node.name))
    # networkx / numpy are scanned textually (docstrings with 'pre:' style lines would be picked up by CrossHair)
    import networkx
    nxroot = os.path.dirname(networkx.__file__)
    out = subprocess.run(["grep", "-rlE", r"^\s*(pre|post|inv|raises):", "--include=*.py", nxroot],
                         capture_output=True, text=True).stdout.split()
    bad.extend(out)
    return bad


def model_selftest(seed, rounds=300):
    """Model validation (not deciding): SymIntMap behaves like dict / defaultdict(int) on seeded random operation
    sequences (insertion order, membership, get, setdefault-by-missing, deletion, reversed, iteration)."""
    import collections
    import random
    from dynverif.models import SymIntMap
    rnd = random.Random(seed)
    for r in range(rounds):
        use_default = rnd.random() < 0.5
        ref = collections.defaultdict(int) if use_default else {}
        m = SymIntMap(default_factory=int if use_default else None)
        for _ in range(rnd.randint(1, 25)):
            k = rnd.randint(-3, 6)
            op = rnd.choice(["set", "get", "del", "in", "getitem", "iter", "len", "rev"])
            try:
                if op == "set":
                    v = rnd.randint(0, 9)
                    ref[k] = v
                    m[k] = v
                elif op == "get":
                    assert ref.get(k, "x") == m.get(k, "x")
                elif op == "del":
                    e1 = e2 = None
                    try:
                        del ref[k]
                    except KeyError as ex:
                        e1 = ex
                    try:
                        del m[k]
                    except KeyError as ex:
                        e2 = ex
                    assert (e1 is None) == (e2 is None)
                elif op == "in":
                    assert (k in ref) == (k in m)
                elif op == "getitem":
                    e1 = e2 = None
                    v1 = v2 = None
                    try:
                        v1 = ref[k]
                    except KeyError as ex:
                        e1 = ex
                    try:
                        v2 = m[k]
                    except KeyError as ex:
                        e2 = ex
                    assert (e1 is None) == (e2 is None) and v1 == v2
                elif op == "iter":
                    assert list(ref) == list(m) and list(ref.items()) == list(m.items())
                elif op == "len":
                    assert len(ref) == len(m)
                elif op == "rev":
                    assert list(reversed(ref)) == list(reversed(m))
            except AssertionError:
                return "SymIntMap disagrees with dict in round %d (seed %d) on op %s key %r" % (r, seed, op, k)
        if sorted(ref.keys()) != sorted(m.keys()):
            return "SymIntMap keys disagree in round %d (seed %d)" % (r, seed)
    return None


def sha_sources():
    out = {}
    for rel in ANCHOR_GLOB:
        p = os.path.join(REPO, rel)
        if os.path.exists(p):
            out[rel] = hashlib.sha256(open(p, "rb").read()).hexdigest()[:16]
    return out


def load_findings():
    p = os.path.join(VERIF, "known_findings.json")
    if not os.path.exists(p):
        return {}
    return {f["id"]: f for f in json.load(open(p))["findings"]}


def main(argv=None):
    ap = argparse.ArgumentParser()
    ap.add_argument("prop")
    ap.add_argument("--tier", default=os.environ.get("VERIF_TIER", "quick"), choices=["quick", "thorough"])
    ap.add_argument("--replay")
    ap.add_argument("--jobs", type=int, default=int(os.environ.get("DYNVERIF_JOBS", "0")) or os.cpu_count() or 4)
    ap.add_argument("--only", help="regex on condition names (development)")
    ap.add_argument("--no-evidence", action="store_true")
    a = ap.parse_args(argv)
    prop = a.prop.upper()
    seed = int(os.environ.get("VERIF_SEED", "0") or 0)
    t_start = time.time()

    sys.path.insert(0, REPO)
    os.environ["PYTHONDONTWRITEBYTECODE"] = "1"
    sys.dont_write_bytecode = True

    if a.replay:
        rp = json.load(open(a.replay))
        r = native_jobs(rp["property"], rp["cond"], [{"kind": "replay", "args": rp["args"]}])
        res = (r.get("results") or [{}])[0]
        if res.get("holds") is False:
            print("replayed %s: %s" % (a.replay, res.get("detail")))
            print("VIOLATION property=%s replay=%s" % (rp["property"], a.replay))
            return 1
        print("replay does not reproduce on the current tree: %s" % (res.get("detail") or r.get("message"),))
        return 0

    try:
        mod = importlib.import_module("dynverif.h_" + prop.lower())
    except Exception as ex:       # e.g. the warm-up of a harness fails on the current tree: not a verdict
        import traceback
        print("INCONCLUSIVE harness module for %s cannot be loaded on the current tree: %s" %
              (prop, "".join(traceback.format_exception_only(type(ex), ex)).strip()))
        # if the failure comes from the code under test itself, say where
        tb = traceback.extract_tb(ex.__traceback__)
        repo_frames = [f for f in tb if f.filename.startswith(REPO + "/")]
        if repo_frames:
            f = repo_frames[-1]
            print("  raised in %s:%d (%s) during the harness warm-up on a concrete graph" % (f.filename, f.lineno, f.name))
        return 3
    reg = mod.REG
    conds = reg.select(a.tier)
    if a.only:
        conds = [c for c in conds if re.search(a.only, c.name)]
    findings = load_findings()
    problems = []      # inconclusive / harness errors
    violations = []
    known_lines = []

    mv = model_selftest(seed)
    if mv:
        problems.append("model validation: " + mv)
    bad = contract_scan()
    if bad:
        problems.append("contract hygiene: docstring contracts found outside registered conditions: %s" % bad[:5])

    results = {}
    if not bad:
        with concurrent.futures.ThreadPoolExecutor(max_workers=a.jobs) as ex:
            # longest budgets first
            order = sorted(conds, key=lambda c: -c.timeout)
            futs = {ex.submit(run_worker, prop, c.name, "analyze", a.tier, int(c.timeout * 3 + 180)): c for c in order}
            for fu in concurrent.futures.as_completed(futs):
                c = futs[fu]
                results[c.name] = fu.result()

    tot = {"paths": 0, "confirmed_paths": 0, "z3_calls": 0, "z3_time": 0.0, "cpu": 0.0}
    samples = []
    functions = set()
    tags_reached = set()
    traces_validated = 0
    n_confirmed = 0
    per_cond = []
    for c in conds:
        r = results.get(c.name)
        if r is None:
            continue
        for k in ("paths", "confirmed_paths", "z3_calls"):
            tot[k] += int(r.get(k, 0) or 0)
        tot["z3_time"] += float(r.get("z3_time", 0) or 0)
        tot["cpu"] += float(r.get("wall", 0) or 0)
        st = r.get("status")
        entry = {"condition": c.name, "asserts": c.what, "bounds": c.bounds, "verdict": st, "paths": r.get("paths"),
                 "solver_queries": r.get("z3_calls"), "solver_time_s": r.get("z3_time"), "wall_s": r.get("wall")}
        if r.get("canary") is False:
            problems.append("%s: canary not refuted (CrossHair ignored a failure reached through a helper)" % c.name)
        # ---- known-finding conditions: expected to be refuted and to reproduce natively
        if c.finding is not None:
            f = findings.get(c.finding)
            if st == "REFUTED" and r.get("args") is not None:
                nr = native_jobs(prop, c.name, [{"kind": "replay", "args": r["args"]}])
                res = (nr.get("results") or [{}])[0]
                if res.get("holds") is False:
                    traces_validated += 1
                    if f is not None and f.get("status") == "known":
                        known_lines.append("KNOWN-FINDING: property=%s %s [%s; witness %s]" %
                                           (prop, f["what"], c.finding, json.dumps(r["args"])[:200]))
                        entry["verdict"] = "REFUTED (known finding %s, reproduced natively)" % c.finding
                    else:
                        violations.append((c, r, res))
                else:
                    problems.append("%s: counterexample of finding condition does not reproduce natively: %s" %
                                    (c.name, res.get("detail") or nr.get("message")))
            elif st == "CONFIRMED":
                entry["verdict"] = "CONFIRMED (the listed finding %s no longer occurs)" % c.finding
                n_confirmed += 1
            else:
                problems.append("%s: %s %s" % (c.name, st, r.get("message")))
            per_cond.append(entry)
            continue
        # ---- ordinary conditions
        if st == "CONFIRMED":
            n_confirmed += 1
            tags_reached.update(r.get("tags_done", []))
            missing = [t for t in c.tags if t not in r.get("tags_done", [])]
            if missing:
                problems.append("%s: reach tags never reached on a completed path (vacuous?): %s" % (c.name, missing))
            jobs = []
            for tw in r.get("twins", []):
                if tw["status"] != "REFUTED" or tw.get("args") is None:
                    problems.append("%s: reachability twin for tag %s came back %s" % (c.name, tw["tag"], tw["status"]))
                else:
                    jobs.append({"kind": "witness", "tag": tw["tag"], "args": tw["args"]})
                tot["paths"] += tw.get("paths", 0)
                tot["z3_calls"] += tw.get("z3_calls", 0)
                tot["z3_time"] += tw.get("z3_time", 0)
            if jobs:
                nr = native_jobs(prop, c.name, jobs)
                if nr.get("status") == "ERROR":
                    problems.append("%s: native witness run failed: %s" % (c.name, nr.get("message")))
                for job, res in zip(jobs, nr.get("results", [])):
                    if res.get("holds") is not True or job["tag"] not in res.get("tags", []):
                        problems.append("%s: witness for tag %s does not hold natively / does not reach the tag: %s" %
                                        (c.name, job["tag"], res))
                    else:
                        traces_validated += 1
                        if len(samples) < 12:
                            samples.append({"condition": c.name, "bounds": c.bounds, "reaches": job["tag"],
                                            "witness_args": job["args"], "native_result": "holds"})
                functions.update(nr.get("functions", []))
        elif st == "REFUTED":
            if r.get("args") is None:
                problems.append("%s: counterexample could not be parsed: %s" % (c.name, r.get("message", "")[:300]))
            else:
                nr = native_jobs(prop, c.name, [{"kind": "replay", "args": r["args"]}])
                res = (nr.get("results") or [{}])[0]
                if res.get("holds") is False:
                    violations.append((c, r, res))
                    traces_validated += 1
                else:
                    problems.append("%s: counterexample does not reproduce against the real code (%s); message: %s" %
                                    (c.name, res.get("detail") or nr.get("message"), r.get("message", "")[:300]))
        else:
            problems.append("%s: %s %s" % (c.name, st, (r.get("message") or "")[:400]))
        per_cond.append(entry)

    # ---- report
    os.makedirs(os.path.join(VERIF, "replays", prop), exist_ok=True)
    for line in known_lines:
        print(line)
    vio_out = []
    for c, r, res in violations:
        h = hashlib.sha256(json.dumps(r["args"], sort_keys=True).encode()).hexdigest()[:10]
        path = os.path.join(VERIF, "replays", prop, "%s-%s.json" % (c.name, h))
        json.dump({"property": prop, "cond": c.name, "args": r["args"], "crosshair": r.get("message"),
                   "native": res.get("detail"), "asserts": c.what, "bounds": c.bounds}, open(path, "w"), indent=1)
        print("violated: %s :: %s :: %s" % (c.name, c.what, res.get("detail")))
        print("VIOLATION property=%s replay=%s" % (prop, path))
        vio_out.append(path)
    for p in problems:
        print("INCONCLUSIVE %s" % p)

    wall = round(time.time() - t_start, 2)
    print("%s tier=%s conditions=%d confirmed=%d paths=%d solver_queries=%d solver_time=%.1fs cpu=%.0fs wall=%.0fs "
          "violations=%d inconclusive=%d" % (prop, a.tier, len(conds), n_confirmed, tot["paths"], tot["z3_calls"],
                                            tot["z3_time"], tot["cpu"], wall, len(violations), len(problems)))

    if not a.no_evidence and not a.only:
        if not samples:
            samples = [{"condition": e["condition"], "bounds": e["bounds"], "verdict": e["verdict"]} for e in per_cond[:5]]
        ev = {
            "property_id": prop, "tier": a.tier, "seed": seed, "level": "model_checking",
            "coverage": {
                "states": max(tot["paths"], 1), "transitions": max(tot["z3_calls"], 1),
                "traces_validated_against_impl": traces_validated,
                "samples": samples,
                "evaluations": max(tot["paths"], 1),
                "distinct_nontrivial": len(tags_reached),
                "rule": "one evaluation = one symbolic execution path of a condition (an equivalence class of inputs "
                        "closed by the solver); distinct_nontrivial = number of distinct reach tags (named interesting "
                        "situations such as reject/extend/append/contained, q at a run boundary) reached on completed paths",
                "exhaustive": len(problems) == 0 and len(violations) == 0,
                "states_are": "symbolic paths explored to completion (each decided by z3 for all integers on that path)",
                "transitions_are": "z3 Solver.check queries discharged",
                "conditions": per_cond,
                "conditions_total": len(conds), "conditions_confirmed": n_confirmed,
                "solver_time_s": round(tot["z3_time"], 2), "cpu_s": round(tot["cpu"], 1),
                "functions_encoded": sorted(functions) or getattr(mod, "FUNCTIONS", []),
                "source_sha256_16": sha_sources(),
                "engine": "CrossHair 0.0.110 + z3 5.1.0 (symbolic execution of the real /repo bytecode, regenerated each run)",
                "tags_reached": sorted(tags_reached),
                "known_findings_reproduced": known_lines,
                "model_validation": "SymIntMap vs dict/defaultdict(int): 300 seeded random operation sequences (seed %d): %s" % (seed, mv or "agree"),
                "inconclusive": problems,
            },
            "assumptions": list(reg.notes),
            "wall_s": wall,
            "violations": len(violations),
        }
        os.makedirs(os.path.join(VERIF, "evidence"), exist_ok=True)
        json.dump(ev, open(os.path.join(VERIF, "evidence", prop + ".json"), "w"), indent=1, default=repr)
        if a.tier == "thorough":      # keep a copy of the last thorough run next to the (quick) evidence that vp check rewrites
            os.makedirs(os.path.join(VERIF, "evidence_thorough"), exist_ok=True)
            json.dump(ev, open(os.path.join(VERIF, "evidence_thorough", prop + ".json"), "w"), indent=1, default=repr)
    if violations:
        return 1
    if problems:
        return 3
    return 0


if __name__ == "__main__":
    sys.exit(main())
