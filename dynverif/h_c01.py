"""C01 - interaction presence is exactly the union of the spans that were added."""
from . import step
from .core import Registry

REG = Registry("C01")
REG.notes += [
    "M1/M2: snapshots and time_to_edge are replaced by symbolic-key maps with an arbitrary invariant-satisfying content "
    "(lazily materialised); validated against dict natively",
    "assumed validity predicate of a call: vanishing time absent or e > t (e <= t is outside the claim)",
    "node ids are concrete representatives (1,2,3,7,8); node patterns enumerated: same order, swapped order, self-loop, "
    "bystander pair sharing an endpoint (undirected) / reverse direction (directed)",
    "inductive argument: every condition assumes the full invariant Inv1-Inv3 on the pre-state and C03/C04/C05 prove each "
    "conjunct on the post-state, so the result covers histories of any length; span length L and n<=3 runs are the bounds "
    "(n is lifted by the frame condition of C03)",
]
FUNCTIONS = ["dynetx/classes/dyngraph.py:DynGraph.add_interaction", "dynetx/classes/dyngraph.py:DynGraph.has_interaction",
             "dynetx/classes/dyndigraph.py:DynDiGraph.add_interaction", "dynetx/classes/dyndigraph.py:DynDiGraph.has_interaction"]

step.register_matrix(
    REG, "pres", "pres",
    "accepted iff not (t < start of latest run); afterwards has_interaction(u,v,q) (both orders if undirected) == present "
    "before or t<=q<=end of span; has_interaction(u,v) is True; bystander pair, reverse direction and unknown pairs unchanged",
    quick=lambda key, n, L, by: L == 2 and (n <= 1 or (n == 2 and key in ("u_swap", "d_same"))) and key != "d_same_by",
    split=lambda key, n, L, by: by and n >= 1,
    tags=lambda n: ["accepted", "q_new"] + (["rejected", "append", "extend", "contained"] if n else []), twins=2)


# ---- (C) bulk helpers: add_interactions_from / add_path / add_star / add_cycle (methods and dn.* forms) behave exactly like the
# explicit add_interaction sequence (the conditions are shared with C07, where the failing-element case is the subject)
def _bulk():
    from . import h_c07
    for nm, c in h_c07.REG.conds.items():
        if nm.startswith("bulk_") and c.cfg["removal"]:
            REG.add(nm, h_c07.T_bulk, h_c07.bulk_body, cfg=c.cfg, tier=c.tier, timeout=c.timeout, tags=c.tags, twins=1,
                    bounds=c.bounds, what=c.what + "; timelines canonical and no run object shared between two pairs")


_bulk()
