"""Representation invariant (DESIGN section 4) and presence oracles.  Written with non-short-circuit &, |, == so that
evaluating them on symbolic values does not fork.  Contract-free."""


def present_at(tl, k):
    """k lies in one of the closed intervals of tl (symbolic-friendly, no forking)."""
    r = False
    for ab in tl:
        r = r | ((ab[0] <= k) & (k <= ab[1]))
    return r


def starts_at(tl, k):
    r = False
    for ab in tl:
        r = r | (ab[0] == k)
    return r


def ends_before(tl, k):
    """k == b+1 for some run [a,b]."""
    r = False
    for ab in tl:
        r = r | (ab[1] + 1 == k)
    return r


def long_ends_before(tl, k, minlen):
    """k == b+1 for some run [a,b] with at least minlen instants."""
    r = False
    for ab in tl:
        r = r | ((ab[1] + 1 == k) & (ab[1] - ab[0] + 1 >= minlen))
    return r


def canonical(tl):
    """Inv1 on one timeline: a<=b, strictly increasing, at least one absent instant between runs (forks)."""
    prev = None
    for ab in tl:
        if len(ab) != 2:
            return False
        a, b = ab[0], ab[1]
        if a > b:
            return False
        if prev is not None and not (prev + 1 < a):
            return False
        prev = b
    return len(tl) >= 1


def canonical_nf(tl):
    """Same as canonical() but as one non-forking symbolic conjunction (for assumptions)."""
    ok = True
    prev = None
    for ab in tl:
        ok = ok & (ab[0] <= ab[1])
        if prev is not None:
            ok = ok & (prev + 1 < ab[0])
        prev = ab[1]
    return ok


def events_ok(tl, k, plus1, plus2, minus1, minus2, closure_minlen=3):
    """Inv3 (+ weak closure Inv3c) for one pair at instant k.  plus1/plus2: '+' event stored under either endpoint order
    (pass False for plus2/minus2 on directed pairs)."""
    plus = plus1 | plus2
    minus = minus1 | minus2
    ok = (plus == starts_at(tl, k))
    ok = ok & ((plus1 & plus2) == False)            # noqa: E712  (symbolic ==)
    ok = ok & ((minus == False) | ends_before(tl, k))  # noqa: E712
    ok = ok & ((minus1 & minus2) == False)          # noqa: E712
    if closure_minlen is not None:
        ok = ok & ((long_ends_before(tl, k, closure_minlen) == False) | minus)  # noqa: E712
    return ok
