"""C12 - every returned time-respecting path is a genuine one."""
import dynetx.algorithms.paths as paths

from . import models
from .core import Registry, B48
from .models import assume, reach, sbool
from .pathmodel import LazyG, genuine, window_ids, install_fast_nx

REG = Registry("C12")
REG.notes += [
    "M6: the path code runs on LazyG, which implements the four observers it uses (temporal_snapshots_ids, neighbors, "
    "has_node, nodes) over lazily decided symbolic presence bits; each explored path stands for every graph that agrees on the "
    "bits consulted.  The observers' contract on the real classes is C02.  Snapshot ids are a concrete list; window bounds "
    "are symbolic integers (or None)",
    "node ids: ints or '_'-free strings; graphs without self-loops (a self-loop on the root yields the DAG cycle u@t->u@t: "
    "reported under C15)",
    "M5: tqdm stubbed",
]
FUNCTIONS = ["dynetx/algorithms/paths.py:time_respecting_paths", "dynetx/algorithms/paths.py:all_time_respecting_paths",
             "dynetx/algorithms/paths.py:temporal_dag"]
models.stub_environment()


def _warm():
    import dynetx as dn
    for c in (dn.DynGraph, dn.DynDiGraph):
        g = c()
        g.add_interaction(0, 1, 0)
        g.add_interaction(1, 2, 1)
        g.add_interaction(2, 0, 2)
        paths.time_respecting_paths(g, 0, None, 0, 2)
        paths.time_respecting_paths(g, 0, 2)
        paths.all_time_respecting_paths(g, 0, 2)
        paths.temporal_dag(g, 0)
    G = LazyG([0, 1, 2], [0, 1, 2], False, [True] * 48)
    paths.time_respecting_paths(G, 0, None, 0, 2)
    paths.all_time_respecting_paths(G, 0, 2, min_t=0)


_warm()
install_fast_nx(paths)


def T_paths(start: int, end: int, pb: B48) -> bool:
    pass


def names(cfg):
    return ["a", "b", "c", "d"][:cfg["N"]] if cfg["strnodes"] else list(range(cfg["N"]))


def body(cfg, start, end, pb):
    nodes = names(cfg)
    ids = cfg["ids"]
    fixed = {}
    if cfg.get("part") is not None:
        # partition of the bit space: the two interactions leaving the source at the first snapshot id are preset
        others = [n for n in nodes if n != nodes[cfg["u"]]]
        fixed[(nodes[cfg["u"]], others[0], ids[0])] = bool(cfg["part"] & 1)
        fixed[(nodes[cfg["u"]], others[1], ids[0])] = bool(cfg["part"] & 2)
    G = LazyG(nodes, ids, cfg["directed"], pb, fixed=fixed)
    u = nodes[cfg["u"]]
    v = None if cfg["v"] is None else nodes[cfg["v"]]
    s = None if cfg["start_none"] else start
    e = None if cfg["end_none"] else end
    if s is not None:
        assume((ids[0] <= s))
    if e is not None:
        assume(e <= ids[-1])
    if s is not None and e is not None:
        assume(s <= e)
    elif s is not None:
        assume(s <= ids[-1])
    elif e is not None:
        assume(ids[0] <= e)
    res = paths.time_respecting_paths(G, u, v, s, e)
    if isinstance(res, list):
        if res != []:
            return False
        reach("root_absent")
        return True
    seen = set()
    for key, plist in res.items():
        if not isinstance(key, tuple) or len(key) != 2:
            return False
        for p in plist:
            if not genuine(G, p, u, v, s, e):
                return False
            if (p[0][0], p[-1][1]) != key:
                return False
            if p in seen:
                return False
            seen.add(p)
            if len(p) >= 2:
                reach("multi_hop")
            if len(p) >= 3:
                reach("three_hops")
    if not seen:
        reach("no_path")
    return True


def all_body(cfg, start, end, pb):
    nodes = names(cfg)
    ids = cfg["ids"]
    G = LazyG(nodes, ids, cfg["directed"], pb, extra_pair=(77, 78))
    assume((ids[0] <= start) & (start <= end) & (end <= ids[-1]))
    res = paths.all_time_respecting_paths(G, start, end, min_t=cfg["min_t"])
    for key, plist in res.items():
        for p in plist:
            if p[0][0] in (77, 78):
                continue
            if not genuine(G, p, key[0], key[1], start, end):
                return False
            if (p[0][0], p[-1][1]) != key:
                return False
            reach("some_path")
    return True


for directed in (False, True):
    for strnodes in (False, True):
        for ids, N in (([0, 1], 3), ([0, 1, 2], 3), ([0, 2, 3], 3), ([1, 3, 4, 6], 3), ([0, 1, 2], 4)):
            for u in range(1 if N == 3 else 2):
                for v in (None, 1, 0):
                    for (sn, en) in ((False, False), (True, True), (True, False)):
                      for part in ((0, 1, 2, 3) if directed else (None,)):
                        if ids == [0, 1] and part not in (None, 0):
                            continue
                        if ids == [0, 1]:
                            part = None
                        quick = (not directed and ids == [0, 1, 2] and N == 3 and not strnodes and (sn, en) != (True, False) and v in (None, 1)) \
                            or (ids == [0, 2, 3] and strnodes and v is None and not sn and not directed) \
                            or (directed and ids == [0, 1] and not strnodes and (sn, en) == (False, False) and v in (None, 1)) \
                            or (directed and ids == [0, 1, 2] and N == 3 and not strnodes and (sn, en) == (False, False) and v is None and part in (0, 1))
                        keep = quick or (not directed and N == 3 and ids == [0, 2, 3] and (sn, en) == (False, False) and v in (None, 1)) \
                            or (directed and ids == [0, 1, 2] and N == 3 and not strnodes and (sn, en) == (False, False) and v is None) \
                            or (directed and ids == [0, 1] and v in (None, 1, 0) and (sn, en) != (True, False))
                        if not keep:
                            continue
                        REG.add("trp_%s_%s_ids%s_N%d_u%d_v%s_%s%s%s" % ("d" if directed else "u", "str" if strnodes else "int",
                                                                        "".join(map(str, ids)), N, u, "N" if v is None else v,
                                                                        "s" if not sn else "S", "e" if not en else "E",
                                                                        "" if part is None else "_p%d" % part),
                                T_paths, body, cfg=dict(directed=directed, strnodes=strnodes, ids=ids, N=N, u=u, v=v, start_none=sn,
                                                        end_none=en, part=part),
                                tier="quick" if quick else "thorough", timeout=900 if quick else 3000,
                                # (a path back to the source within two ids would be an immediate reversal: only "no_path" there)
                                tags=(["multi_hop"] + (["root_absent"] if part in (None, 0) and not sn else [])) if v is None
                                else (["no_path"] if (v == u and len(ids) < 3) else ["multi_hop", "no_path"]), twins=1,
                                bounds="%s over %d %s nodes, snapshot ids %s, lazily decided presence bit per (pair, id), source node "
                                       "index %d, target %s, window %s (symbolic bounds inside the id range)" %
                                       ("directed" if directed else "undirected", N, "string" if strnodes else "int", ids, u,
                                        "omitted" if v is None else "node index %d" % v,
                                        "[%s, %s]" % ("first id" if sn else "start", "last id" if en else "end")),
                                what="every path returned by time_respecting_paths is a non-empty tuple of hops that leaves u, chains, "
                                     "has strictly increasing times inside the window, uses interactions present at their time (a->b "
                                     "if directed), never reverses the previous hop, lets every intermediate node wait only while it "
                                     "keeps a neighbour, reaches v when given; keys are (first,last); no duplicates; [] iff u absent")
    for min_t in (0, 1):
        for ids in ([0, 1], [0, 1, 2]):
            REG.add("all_trp_%s_ids%s_mint%d" % ("d" if directed else "u", "".join(map(str, ids)), min_t), T_paths, all_body,
                    cfg=dict(directed=directed, strnodes=False, ids=ids, N=3, min_t=min_t),
                    tier="quick" if (min_t == 0 and ids == [0, 1] and not directed) else "thorough", timeout=1200 if ids == [0, 1] else 3000,
                    tags=["some_path"], twins=1,
                    bounds="as trp_*, all_time_respecting_paths on ids %s with min_t=%d, symbolic window, plus a disconnected pair present "
                           "at every id" % (ids, min_t),
                    what="every path returned by all_time_respecting_paths is genuine and filed under (first node, last node)")


# ---- eager variant on the REAL classes (shared with C13: soundness and completeness are checked together) ----------------
def _register_eager():
    from . import h_c13
    for name, c in h_c13.REG.conds.items():
        if name.startswith("eager_") and name not in REG.conds and "ids01234" not in name:
            REG.add(name, h_c13.T_eager, h_c13.eager_body, cfg=c.cfg, tier=c.tier, timeout=c.timeout, tags=c.tags, twins=1,
                    bounds=c.bounds, what=c.what)


from . import h_c13  # noqa: E402,F401  (registers the eager_* conditions above via h_c13's last line)

# dropped from the thorough tier (directed 3x3 / all-sources conditions that ran past 60 min without exhausting; see DESIGN.md 12.9)
import re as _re  # noqa: E402
for _n in [n for n, c in REG.conds.items() if c.tier == "thorough" and _re.search(r"^all_trp_d_|^trp_d_int_ids012_N3_u0_vN_se_p[23]$", n)]:
    del REG.conds[_n]

