"""C17 - temporal statistics equal their stream-graph definitions."""
from fractions import Fraction

import dynetx as dn

from . import build, inv, models
from .core import Registry, I8
from .models import assume, reach, sbool

REG = Registry("C17")
REG.notes += [
    "M3 DynGraphs without self-loops with an explicit snapshot counter and event index (run lengths concrete per condition, "
    "starts symbolic, unbounded for the ratio measures)",
    "M8: on every path the counts are concrete integers, so the ratios are compared exactly (Fraction(num, den) == result as "
    "float(num/den)); IEEE rounding of int/int is CPython's and is assumed correct",
    "node_density uses the formula pinned by the test-suite (the denominator sums |T_v & T_u| over ALL nodes v, u included)",
    "M9: the inter-event functions store into a local dict keyed by time differences, which realises them; timestamps are "
    "therefore confined to a window 0 <= t < W for those conditions.  The (u,v) pair form is not claimed (the property lists "
    "global, per node, in/out variants)",
]
FUNCTIONS = ["dynetx/classes/dyngraph.py:DynGraph.coverage", "dynetx/classes/dyngraph.py:DynGraph.node_contribution",
             "dynetx/classes/dyngraph.py:DynGraph.edge_contribution", "dynetx/classes/dyngraph.py:DynGraph.uniformity",
             "dynetx/classes/dyngraph.py:DynGraph.node_pair_uniformity", "dynetx/classes/dyngraph.py:DynGraph.density",
             "dynetx/classes/dyngraph.py:DynGraph.pair_density", "dynetx/classes/dyngraph.py:DynGraph.node_density",
             "dynetx/classes/dyngraph.py:DynGraph.snapshot_density", "dynetx/classes/dyngraph.py:DynGraph.node_presence",
             "dynetx/classes/dyngraph.py:DynGraph.avg_number_of_nodes", "dynetx/classes/dyngraph.py:DynGraph.inter_event_time_distribution",
             "dynetx/classes/dyndigraph.py:DynDiGraph.inter_in_event_time_distribution",
             "dynetx/classes/dyndigraph.py:DynDiGraph.inter_out_event_time_distribution"]
models.install()
_g = dn.DynGraph()
_g.add_interaction(0, 1, 0, 2)
_g.add_interaction(0, 2, 1)
_g.add_interaction(1, 2, 3, 5)
(_g.coverage(), _g.node_contribution(0), _g.edge_contribution(0, 1), _g.uniformity(), _g.node_pair_uniformity(0, 1), _g.density(),
 _g.pair_density(0, 1), _g.node_density(0), _g.snapshot_density(1), _g.node_presence(0), _g.avg_number_of_nodes(),
 _g.inter_event_time_distribution(), _g.inter_event_time_distribution(0), dn.inter_event_time_distribution(_g))
_d = dn.DynDiGraph()
_d.add_interaction(0, 1, 0, 2)
_d.add_interaction(1, 0, 1)
(_d.inter_event_time_distribution(), _d.inter_event_time_distribution(0), _d.inter_in_event_time_distribution(0),
 _d.inter_out_event_time_distribution(0), _d.inter_in_event_time_distribution(), _d.inter_out_event_time_distribution(),
 _d.avg_number_of_nodes())

SHAPES = {
    "two": [(0, 1, [1]), (1, 2, [0])],
    "two_n2": [(0, 1, [0, 1]), (0, 2, [1])],
    "tri": [(0, 1, [1]), (1, 2, [0]), (0, 2, [1])],
    "tri2": [(0, 1, [2]), (1, 2, [1]), (0, 2, [0, 0])],
}
NODES = [0, 1, 2]


def T_stat(ts: I8) -> bool:
    pass


def mk(cfg, ts, directed=False, window=None):
    g = build.new_graph(directed)
    vals = list(ts)
    pairs = []
    for (u, v, lens) in SHAPES[cfg["shape"]]:
        tl = []
        for ln in lens:
            a = vals.pop(0)
            if window is not None:
                assume((0 <= a) & (a + ln < window))
            tl.append([a, a + ln])
        assume(inv.canonical_nf(tl))
        build.put_pair(g, u, v, tl, index=True)
        pairs.append((u, v, tl))
    return g, pairs


def same_ratio(res, num, den):
    """res is the ratio num/den.  M8: when the code's operands are symbolic, CrossHair's '/' is an exact real, for which
    res * den == num holds; when they are concrete, res is the correctly rounded float num/den."""
    if res == num / den:
        return True
    return sbool(res * den == num)


def eq(res, num, den):
    return same_ratio(res, num, den) and (0 <= num <= den)


def stat_body(cfg, ts):
    g, pairs = mk(cfg, ts)
    T = g.temporal_snapshots_ids()
    nT = len(T)

    def Tuv(u, v):
        for (x, y, tl) in pairs:
            if (x, y) == (u, v) or (y, x) == (u, v):
                return [k for k in T if sbool(inv.present_at(tl, k))]
        return []

    def Tu(u):
        return [k for k in T if any(sbool(inv.present_at(tl, k)) for (x, y, tl) in pairs if u in (x, y))]
    V = [n for n in NODES if Tu(n) or any(n in (x, y) for (x, y, tl) in pairs)]
    nV = len(V)
    pres = {n: Tu(n) for n in NODES}
    if nT < sum(len(l) for (_, _, ls) in SHAPES[cfg["shape"]] for l in [ls]):
        pass
    if any(len(set(pres[a]) & set(pres[b])) > 0 for a in V for b in V if a < b):
        reach("overlap")
    W = sum(len(pres[n]) for n in V)
    if not eq(g.coverage(), W, nT * nV):
        return False
    if not same_ratio(g.avg_number_of_nodes(), W, nT):          # a mean, not a ratio in [0,1]
        return False
    for n in V:
        if not eq(g.node_contribution(n), len(pres[n]), nT):
            return False
        if g.node_presence(n) != set(pres[n]):
            return False
    num_u = den_u = num_d = den_d = 0
    for i, a in enumerate(V):
        for b in V[i + 1:]:
            inter = len(set(pres[a]) & set(pres[b]))
            union = len(set(pres[a]) | set(pres[b]))
            tuv = len(Tuv(a, b))
            num_u += inter
            den_u += union
            num_d += tuv
            den_d += inter
            if union and not eq(g.node_pair_uniformity(a, b), inter, union):
                return False
            pd = g.pair_density(a, b)
            if inter == 0:
                if pd != 0:
                    return False
            elif not eq(pd, tuv, inter):
                return False
            if tuv and not eq(g.edge_contribution(a, b), tuv, nT):
                return False
    if den_u and not eq(g.uniformity(), num_u, den_u):
        return False
    if den_d and not eq(g.density(), num_d, den_d):
        return False
    for a in V:
        numer = sum(len(Tuv(a, b)) for b in V if b != a)
        denom = sum(len(set(pres[b]) & set(pres[a])) for b in V)
        nd = g.node_density(a)
        if denom == 0:
            if nd != 0:
                return False
        elif not same_ratio(nd, numer, denom):
            return False
    for k in T:
        nk = [n for n in V if k in pres[n]]
        mk_ = sum(1 for (x, y, tl) in pairs if sbool(inv.present_at(tl, k)))
        sd = g.snapshot_density(k)
        exp = 0 if len(nk) <= 1 else 2 * mk_ / (len(nk) * (len(nk) - 1))
        if sd != exp or not (0 <= sd <= 1):
            return False
    return True


def iet_body(cfg, ts):
    directed = cfg["directed"]
    g, pairs = mk(cfg, ts, directed=directed, window=cfg["W"])
    st = list(g.stream_interactions())

    def hist(events):
        h = {}
        for a, b in zip(events, events[1:]):
            d = b[3] - a[3]
            h[d] = h.get(d, 0) + 1
        return h

    def ok(got, events):
        exp = hist(events)
        if got != exp:
            return False
        if events:
            if sum(got.values()) != len(events) - 1:
                return False
            if sum(k * c for k, c in got.items()) != events[-1][3] - events[0][3]:
                return False
        return True
    if not ok(g.inter_event_time_distribution(), st) or not ok(dn.inter_event_time_distribution(g), st):
        return False
    for n in NODES:
        if not ok(g.inter_event_time_distribution(n), [e for e in st if n in (e[0], e[1])]):
            return False
        if directed:
            if not ok(g.inter_in_event_time_distribution(n), [e for e in st if e[1] == n]):
                return False
            if not ok(g.inter_out_event_time_distribution(n), [e for e in st if e[0] == n]):
                return False
    if directed:
        if not ok(g.inter_in_event_time_distribution(), st) or not ok(g.inter_out_event_time_distribution(), st):
            return False
    if len(set(e[3] for e in st)) < len(st):
        reach("simultaneous_events")
    return True


for shape in SHAPES:
  if shape != "tri2":        # four symbolic run starts over three pairs do not exhaust in 20 min for the ratio measures
    REG.add("stats_%s" % shape, T_stat, stat_body, cfg=dict(shape=shape), tier="quick" if shape in ("two", "two_n2") else "thorough",
            timeout=1200, tags=["overlap"], twins=1,
            bounds="DynGraph on nodes 0,1,2 with interactions %s (u, v, run lengths-1), unbounded symbolic run starts (all relative "
                   "positions), explicit snapshot counter" % (SHAPES[shape],),
            what="coverage, avg_number_of_nodes, node_contribution, node_presence, node_pair_uniformity, pair_density, "
                 "edge_contribution, uniformity, density, node_density, snapshot_density equal their definitions recomputed from the "
                 "presence relation (ratios with non-zero denominators, in [0,1])")
    for directed in (False, True):
        for W in (4, 6):
            quick = W == 4 and shape in ("two", "tri")
            REG.add("iet_%s_%s_W%d" % ("d" if directed else "u", shape, W), T_stat, iet_body, cfg=dict(shape=shape, directed=directed, W=W),
                    tier="quick" if quick else "thorough", timeout=1200, tags=["simultaneous_events"], twins=1,
                    bounds="%s with interactions %s, symbolic run starts confined to 0 <= t < %d" %
                           ("DynDiGraph" if directed else "DynGraph", SHAPES[shape], W),
                    what="inter_event_time_distribution (global, per node%s, dn.* form) is the histogram of gaps between consecutive "
                         "events of the chronological stream restricted accordingly: mass = #events-1, weighted sum = last-first" %
                         (", in/out variants" if directed else ""))
