"""C16 - directed/undirected conversion preserves presence and isolates the copy."""
import dynetx as dn

from . import build, inv, models
from .core import Registry
from .h_c06 import make_G
from .models import assume, reach, sbool

REG = Registry("C16")
REG.notes += [
    "M3 source graphs (timelines symbolic, runs of at most L+1 instants because the conversions re-add every span through "
    "add_interaction, whose counter loop is unrolled); results are built by the real code on M1 maps",
    "to_undirected(reciprocal=True) compares nodes with >= : node ids must be orderable (outside the claim otherwise)",
    "known finding F-C16-one-direction: to_directed() creates only the direction in which interactions() lists the pair",
]
FUNCTIONS = ["dynetx/classes/dyngraph.py:DynGraph.to_directed", "dynetx/classes/dyndigraph.py:DynDiGraph.to_undirected"]
models.install()
_g = dn.DynDiGraph()
_g.add_node(9, k=[1])
_g.add_interaction(1, 2, 0, 4)
_g.add_interaction(2, 1, 2, 6)
_g.add_interaction(1, 1, 3)
_g.graph["meta"] = {"a": [1]}
_g.to_undirected().interactions(), _g.to_undirected(reciprocal=True).interactions()
_u = dn.DynGraph()
_u.add_interaction(1, 2, 0, 4)
_u.add_interaction(1, 1, 0)
_u.to_directed().out_interactions()


def T_conv(a0: int, b0: int, a1: int, b1: int, c0: int, d0: int, q: int) -> bool:
    pass


def body(cfg, a0, b0, a1, b1, c0, d0, q):
    directed = cfg["directed"]           # class of the SOURCE graph
    g, pairs = make_G(cfg, a0, b0, a1, b1, c0, d0)
    g.graph["meta"] = {"tags": ["x"], "n": 1}
    g.name = "src"
    pre = [(u, v, [list(x) for x in tl]) for (u, v, tl) in pairs]
    pre_nodes = {n: {"label": g._node[n]["label"], "w": list(g._node[n]["w"])} for n in g._node}
    recip = cfg.get("reciprocal", False)
    # the orientation in which interactions() lists each undirected pair (depends on node insertion order)
    cfg_listed = [] if directed else [(x[0], x[1]) for x in g.interactions()]
    if directed:
        h = g.to_undirected(reciprocal=True) if recip else g.to_undirected()
        if type(h) is not dn.DynGraph:
            return False
    else:
        h = g.to_directed()
        if type(h) is not dn.DynDiGraph:
            return False
    # every node is kept (isolated ones included), attributes are equal but not shared
    if set(h._node) != set(g._node):
        return False
    for n in g._node:
        if h._node[n] != pre_nodes[n] or h._node[n] is g._node[n] or h._node[n]["w"] is g._node[n]["w"]:
            return False
    if h.graph != {"meta": {"tags": ["x"], "n": 1}, "name": "src"} or h.graph is g.graph or h.graph["meta"] is g.graph["meta"]:
        return False
    # presence
    def P(u, v):
        r = False
        for (x, y, tl) in pre:
            if (x, y) == (u, v):
                r = sbool(inv.present_at(tl, q))
        return r
    nodes = [1, 2, 3]
    if directed:
        for i, u in enumerate(nodes):
            for v in nodes[i:]:
                if recip:
                    exp = P(u, v) and P(v, u)
                else:
                    exp = P(u, v) or P(v, u)
                if exp:
                    reach("present_in_result")
                if P(u, v) != P(v, u):
                    reach("one_direction_only")
                if sbool(h.has_interaction(u, v, q)) != exp or sbool(h.has_interaction(v, u, q)) != exp:
                    return False
    else:
        listed = cfg_listed
        for u in nodes:
            for v in nodes:
                fwd = (u, v) in listed
                rev = (v, u) in listed and u != v
                if not fwd and not rev:
                    if h.has_interaction(u, v, q) or h.has_interaction(u, v):
                        return False
                    continue
                exp = P(u, v) or P(v, u)
                if fwd:
                    if exp:
                        reach("present_in_result")
                    if sbool(h.has_interaction(u, v, q)) != exp:
                        return False
                elif cfg.get("check_reverse"):
                    # the direction opposite to the one interactions() lists (known finding F-C16-one-direction)
                    if sbool(h.has_interaction(u, v, q)) != exp:
                        return False
    # G is unchanged and nothing of its timelines is shared with the result
    adj = g._succ if directed else g._adj
    for (u, v, tl), (_, _, old) in zip(pairs, pre):
        cur = adj[u][v]['t']
        if cur is not tl or not build.tl_equal(cur, old):
            return False
        for (x, y, htl) in build.timelines(h):
            if htl is cur:
                return False
            for run in htl:
                for r0 in cur:
                    if run is r0:
                        return False
    if len(build.timelines(g)) != len(pairs):
        return False
    # mutating the result never changes G
    for n in h._node:
        h._node[n]["w"].append(99)
        h._node[n]["extra"] = 1
    h.graph["meta"]["tags"].append("y")
    for n in g._node:
        if g._node[n] != pre_nodes[n]:
            return False
    if g.graph["meta"] != {"tags": ["x"], "n": 1}:
        return False
    # the result is well formed: every span was added with a vanishing time except single instants of reciprocal=True
    return build.wellformed_at(h, q, minlen=2)


for directed in (True, False):
    if directed:
        shapes = [("one_n1", "short_runs", 2), ("one_n2", "short_runs", 1), ("loop_n2", "short_runs", 1),
                  ("recip", "fixed_lens", (1, 0)), ("recip", "fixed_lens", (0, 2)), ("recip", "fixed_lens", (2, 1)),
                  ("recip", "fixed_lens", (1, 1)), ("recip_n2", "fixed_n2", (1, 0, 1)), ("recip_n2", "fixed_n2", (0, 1, 2)),
                  ("recip", "short_runs", 2), ("recip_n2", "short_runs", 1), ("recip_n2", "fixed_n2", (0, 0, 4)),
                  ("recip_n2b", "fixed_n2", (0, 0, 4)), ("recip_n2b", "fixed_n2", (1, 0, 5)),
                  ("one_n2", "short_runs", 2), ("recip", "fixed_lens", (3, 1)), ("recip", "short_runs", 3),
                  ("recip_n2", "short_runs", 2)]
    else:
        shapes = [("one_n1", "short_runs", 2), ("one_n2", "short_runs", 1), ("loop_n2", "short_runs", 1),
                  ("two_share", "fixed_lens", (1, 0)), ("two_share", "fixed_lens", (1, 2)), ("one_n2", "short_runs", 2)]
    for si, (shape, mode, par) in enumerate(shapes):
        for recip in ((False, True) if directed else (False,)):
            cfg = dict(directed=directed, shape=shape, mode=mode, reciprocal=recip)
            cfg[{"short_runs": "L", "fixed_lens": "lens", "fixed_n2": "lens"}[mode]] = par
            quick = si < (14 if directed else 4) and not (directed and recip and shape in ("one_n1", "loop_n2"))
            if shape.startswith("recip_n2") and mode == "fixed_n2":
                quick = recip
            name = "%s_%s_%s%s" % ("to_undirected" if directed else "to_directed", shape,
                                   "".join(str(x) for x in (par if isinstance(par, tuple) else (par,))), "_reciprocal" if recip else "")
            REG.add(name, T_conv, body, cfg=cfg, tier="quick" if quick else "thorough", timeout=900 if quick else 3000,
                    tags=([] if (recip and shape in ("one_n1", "one_n2")) else ["present_in_result"]) +
                         (["one_direction_only"] if directed and shape.startswith("recip") else []), twins=1,
                    bounds="source %s with shape %s (%s %s), nodes 1,2,3 + isolated node 9 with nested attributes, graph attributes; "
                           "unbounded symbolic starts and q" % ("DynDiGraph" if directed else "DynGraph", shape, mode, par),
                    what=("to_undirected(%s): {u,v} present at q iff %s; " % ("reciprocal=True" if recip else "",
                                                                             "both directions are" if recip else "u->v or v->u is")
                          if directed else "to_directed(): the direction listed by interactions() is present at q iff {u,v} is; ") +
                         "result class; all nodes kept; node/graph attributes equal, deep-copied (mutating the result leaves G "
                         "unchanged); no timeline or run object shared with G; G unchanged; result satisfies Inv1-Inv3 at q")
REG.add("finding_to_directed_reverse", T_conv, body,
        cfg=dict(directed=False, shape="one_n1", mode="short_runs", L=1, check_reverse=True),
        tier="quick", timeout=300, finding="F-C16-one-direction",
        bounds="DynGraph with one pair, one run of <= 2 instants",
        what="(expected to fail) to_directed() also creates the direction v->u opposite to the one interactions() lists")

REG.conds["to_undirected_recip_n2_1"].tier = "thorough"


# ---- CPython's hash iteration order of int sets is not modelled by the engine (insertion order there).  to_undirected(
# reciprocal=True) builds sets of instants, so a bounded window of starts is enumerated by the solver and the conversion is
# then executed NATIVELY (outside the tracer) on the real class, where the real set order applies.
def T_native(a: int, c: int, q: int) -> bool:
    pass


def native_body(cfg, a, c, q):
    W = cfg["W"]
    assume((0 <= a) & (a < W) & (0 <= c) & (c < W))
    ca = 0
    while sbool(ca < a):
        ca += 1
    cc = 0
    while sbool(cc < c):
        cc += 1
    if ca + cfg["lens"][0] >= 8 and cc + cfg["lens"][1] >= 8:
        reach("beyond_small_ints")
    return models.untraced(native_recip, cfg, ca, cc)


def native_recip(cfg, a, c):
    la, lc = cfg["lens"]
    g = dn.DynDiGraph()
    g.add_interaction(1, 2, a, a + la + 1)
    g.add_interaction(2, 1, c, c + lc + 1)
    for recip in (True, False):
        h = g.to_undirected(reciprocal=recip)
        for k in range(-1, cfg["W"] + max(la, lc) + 3):
            p12, p21 = a <= k <= a + la, c <= k <= c + lc
            exp = (p12 and p21) if recip else (p12 or p21)
            if bool(h.has_interaction(1, 2, k)) != exp or bool(h.has_interaction(2, 1, k)) != exp:
                return False
        for (u, v, d) in h.interactions():
            prev = None
            for (x, y) in d['t']:
                if x > y or (prev is not None and not prev + 1 < x):
                    return False
                prev = y
    return True


for lens in ((3, 3), (5, 2), (1, 6)):
    REG.add("native_recip_%d%d" % lens, T_native, native_body, cfg=dict(lens=lens, W=12), tier="quick" if lens == (3, 3) else "thorough",
            timeout=600, tags=["beyond_small_ints"], twins=1,
            bounds="DynDiGraph with 1->2 on [a, a+%d] and 2->1 on [c, c+%d], 0 <= a, c < 12 (enumerated by the solver), conversion and "
                   "checks executed natively on the real class" % lens,
            what="to_undirected(reciprocal=True/False): presence is the intersection/union at every instant and the timeline is "
                 "canonical, under CPython's real set iteration order")
