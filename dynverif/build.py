"""M3: graph states constructed directly under the representation invariant (no history), and symbolic state equality.
Contract-free."""
import dynetx as dn

from .models import NATIVE, SymIntMap, new_events, new_snapshots, sbool
from . import inv


def new_graph(directed, removal=True):
    if NATIVE:
        g = dn.DynDiGraph(edge_removal=removal) if directed else dn.DynGraph(edge_removal=removal)
        return g
    from crosshair.tracers import NoTracing
    with NoTracing():
        g = dn.DynDiGraph(edge_removal=removal) if directed else dn.DynGraph(edge_removal=removal)
    g.snapshots = new_snapshots()
    g.time_to_edge = new_events()
    return g


def add_node_raw(g, x, attrs=None):
    if x in g._node:
        return
    g._node[x] = {} if attrs is None else attrs
    if g.is_directed():
        g._succ[x] = {}
        g._pred[x] = {}
    else:
        g._adj[x] = {}


def put_pair(g, u, v, tl, index=True, closed=None):
    """Store the interaction u-v (u->v) with timeline tl (list of [a,b], canonical) exactly as add_interaction leaves it.
    index=True also fills the snapshot counter and the event index (run lengths must then be concrete).
    closed[i] (default: run longer than one instant) tells whether run i carries its '-' event."""
    add_node_raw(g, u)
    add_node_raw(g, v)
    dd = {'t': tl}
    if g.is_directed():
        g._succ[u][v] = dd
        g._pred[v][u] = dd
    else:
        g._adj[u][v] = dd
        g._adj[v][u] = dd
    if not index:
        return dd
    i = 0
    for ab in tl:
        a, b = ab[0], ab[1]
        _ev(g, a, (u, v, '+'))
        cl = (closed[i] if closed is not None else None)
        if cl is None:
            cl = sbool(b > a)
        if cl and g.edge_removal:
            _ev(g, b + 1, (u, v, '-'))
        k = a
        while sbool(k <= b):
            if k in g.snapshots:
                g.snapshots[k] = g.snapshots[k] + 2
            else:
                g.snapshots[k] = 2
            k = k + 1
        i += 1
    return dd


def _ev(g, k, ev):
    if k in g.time_to_edge:
        g.time_to_edge[k][ev] = None
    else:
        g.time_to_edge[k] = {ev: None}


def timelines(g):
    """{(u,v): timeline} with each interaction once (undirected: key in insertion orientation)."""
    out = []
    if g.is_directed():
        for u in g._succ:
            for v in g._succ[u]:
                out.append((u, v, g._succ[u][v].get('t')))
    else:
        seen = []
        for u in g._adj:
            for v in g._adj[u]:
                if (v, u) in seen:
                    continue
                seen.append((u, v))
                out.append((u, v, g._adj[u][v].get('t')))
    return out


def tl_equal(t1, t2):
    if t1 is None or t2 is None:
        return t1 is t2
    if len(t1) != len(t2):
        return False
    for x, y in zip(t1, t2):
        if len(x) != 2 or len(y) != 2:
            return False
        if not sbool((x[0] == y[0]) & (x[1] == y[1])):
            return False
    return True


def events_at(g, q):
    """Set of events stored at q (concrete tuples)."""
    if q in g.time_to_edge:
        inner = g.time_to_edge[q]
        if isinstance(inner, int):
            return []
        return sorted(list(inner), key=repr)
    return []


def same_state_at(g1, g2, q, ordered_nodes=True):
    """Everything observable agrees: nodes (with attributes, in order), adjacency keys, timelines, and - at the arbitrary
    instant q - snapshot membership/count and the stored events."""
    if (list(g1._node) != list(g2._node)) if ordered_nodes else (set(g1._node) != set(g2._node)):
        return False
    for n in g1._node:
        if g1._node[n] != g2._node[n]:
            return False
    a1 = g1._succ if g1.is_directed() else g1._adj
    a2 = g2._succ if g2.is_directed() else g2._adj
    if set(a1) != set(a2):
        return False
    for u in a1:
        if set(a1[u]) != set(a2[u]):
            return False
        for v in a1[u]:
            if not tl_equal(a1[u][v].get('t'), a2[u][v].get('t')):
                return False
    if g1.is_directed():
        for u in g1._pred:
            if set(g1._pred[u]) != set(g2._pred[u]):
                return False
    in1, in2 = q in g1.snapshots, q in g2.snapshots
    if in1 != in2:
        return False
    if in1 and not sbool(g1.snapshots[q] == g2.snapshots[q]):
        return False
    if events_at(g1, q) != events_at(g2, q):
        return False
    return True


def inv2_at(g, q):
    """Inv2 at q on an explicit graph."""
    cnt = 0
    for u, v, tl in timelines(g):
        if sbool(inv.present_at(tl, q)):
            cnt += 1
    if cnt == 0:
        return q not in g.snapshots
    return q in g.snapshots and sbool(g.snapshots[q] == 2 * cnt)


def inv3_at(g, q, minlen=3):
    """Inv3 (+closure for runs of >= minlen instants) at q on an explicit graph; no events of unknown pairs."""
    evs = events_at(g, q)
    directed = g.is_directed()
    T = timelines(g)
    known = [(u, v) for u, v, tl in T]
    for ev in evs:
        if (ev[0], ev[1]) not in known and (directed or (ev[1], ev[0]) not in known):
            return False
        if ev[2] not in ('+', '-'):
            return False
    for u, v, tl in T:
        p1 = (u, v, '+') in evs
        p2 = (not directed) and u != v and (v, u, '+') in evs
        m1 = (u, v, '-') in evs
        m2 = (not directed) and u != v and (v, u, '-') in evs
        if not sbool(inv.events_ok(tl, q, p1, p2, m1, m2, minlen)):
            return False
    return True


def inv1_all(g):
    if g.is_directed():
        # predecessor side mirrors the successor side
        for v in g._pred:
            for u in g._pred[v]:
                if u not in g._succ or v not in g._succ[u] or g._succ[u][v] is not g._pred[v][u]:
                    return False
    seen_lists = []
    for u, v, tl in timelines(g):
        # no timeline and no run object is shared between two interactions (spans of one pair never affect another)
        for obj in [tl] + list(tl or []):
            for other in seen_lists:
                if obj is other:
                    return False
            seen_lists.append(obj)
    for u, v, tl in timelines(g):
        if tl is None or not inv.canonical(tl):
            return False
        if g.is_directed():
            if g._pred[v][u] is not g._succ[u][v]:
                return False
        else:
            if g._adj[v][u] is not g._adj[u][v]:
                return False
        if u not in g._node or v not in g._node:
            return False
    return True


def wellformed_at(g, q, minlen=3):
    return inv1_all(g) and inv2_at(g, q) and inv3_at(g, q, minlen)


def maps_equal(m1, m2, valeq):
    """Order-insensitive equality of two explicit maps keyed by (symbolic) ints."""
    if len(m1) != len(m2):
        return False
    for k in m1:
        if k not in m2:
            return False
        if not valeq(m1[k], m2[k]):
            return False
    return True


def same_state(g1, g2, ordered_nodes=True):
    """Full state equality of two explicit graphs (no query instant needed): nodes, adjacency, timelines, the whole snapshot
    counter and the whole event index.  The key relations were already decided while the maps were filled, so this adds
    no forks on correct code."""
    if (list(g1._node) != list(g2._node)) if ordered_nodes else (set(g1._node) != set(g2._node)):
        return False
    for n in g1._node:
        if g1._node[n] != g2._node[n]:
            return False
    a1 = g1._succ if g1.is_directed() else g1._adj
    a2 = g2._succ if g2.is_directed() else g2._adj
    if set(a1) != set(a2):
        return False
    for u in a1:
        if set(a1[u]) != set(a2[u]):
            return False
        for v in a1[u]:
            if not tl_equal(a1[u][v].get('t'), a2[u][v].get('t')):
                return False
    if g1.is_directed():
        for u in g1._pred:
            if set(g1._pred[u]) != set(g2._pred[u]):
                return False
    if not maps_equal(g1.snapshots, g2.snapshots, lambda x, y: sbool(x == y)):
        return False

    def eveq(x, y):
        x = [] if isinstance(x, int) else sorted(list(x), key=repr)
        y = [] if isinstance(y, int) else sorted(list(y), key=repr)
        return x == y
    # entries whose event set is empty are not observable through stream_interactions()
    e1 = [(k, v) for k, v in g1.time_to_edge.items() if not isinstance(v, int) and len(v)]
    e2 = [(k, v) for k, v in g2.time_to_edge.items() if not isinstance(v, int) and len(v)]
    if len(e1) != len(e2):
        return False
    for k, v in e1:
        found = False
        for k2, v2 in e2:
            if sbool(k == k2):
                found = True
                if not eveq(v, v2):
                    return False
                break
        if not found:
            return False
    return True


class HarnessLimit(Exception):
    """The code under test asked a derived (oracle-backed) map for something it cannot enumerate."""


class DerivedSnapshots:
    """Read-only snapshot counter computed from the timelines of the graph (Inv2 by construction), valid for runs of any
    length: k in m  <=>  some interaction is present at k;  m[k] = 2 x their number.  Cannot be enumerated."""

    def __init__(self, g):
        self.g = g

    def _cnt(self, k):
        c = 0
        for u, v, tl in timelines(self.g):
            if sbool(inv.present_at(tl, k)):
                c += 1
        return c

    def __contains__(self, k):
        return self._cnt(k) > 0

    def __getitem__(self, k):
        c = self._cnt(k)
        if c == 0:
            raise KeyError(k)
        return 2 * c

    def get(self, k, default=None):
        c = self._cnt(k)
        return default if c == 0 else 2 * c

    def _no(self, *a, **k):
        raise HarnessLimit("derived snapshot counter cannot be enumerated or written")
    __iter__ = __len__ = keys = values = items = __setitem__ = __delitem__ = _no
