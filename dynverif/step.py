"""Layer 1 (DESIGN section 4): one add_interaction from an ARBITRARY invariant-satisfying pre-state (M2) re-establishes
the invariant, changes the presence of the focus pair to P u span and nothing else, or rejects leaving no trace.
One body, many conditions: cfg selects class, node pattern, number of runs n, span length, and the conjunct checked."""
import dynetx as dn
import networkx as nx

from . import inv
from .core import B48, I8
from .models import Inner, LazyPreMap, Sentinel, assume, reach, sbool, NATIVE

for _c in (dn.DynGraph, dn.DynDiGraph):          # warm-up outside tracing (networkx compiles lazily)
    _g = _c()
    _g.add_interaction(1, 2, 0, 3)
    _g.add_interaction(2, 1, 1)
    _g.add_interaction(1, 1, 5)
    _g.has_interaction(1, 2, 1)
    _g.has_interaction(7, 8, 1)


def T_step(a0: int, b0: int, a1: int, b1: int, a2: int, b2: int, c0: int, d0: int, t: int, l: int, q: int,
           pb: B48, pi: I8) -> bool:
    pass


OTH_P, OTH_M = (7, 8, '+'), (7, 8, '-')


def setup(cfg, a0, b0, a1, b1, a2, b2, c0, d0, pb, pi):
    """Build the pre-state.  Returns a dict with the graph and everything the postconditions need."""
    directed = cfg["directed"]
    pat = cfg["pat"]                 # 'same' | 'swap' | 'loop'
    n = cfg["n"]
    by = cfg.get("by", False)        # bystander pair present (directed: the reverse pair; undirected: pair (1,3))
    tl = [[a0, b0], [a1, b1], [a2, b2]][:n]
    assume(inv.canonical_nf(tl))
    pre_tl = [list(x) for x in tl]
    if pat == 'loop':
        su, sv = 1, 1                # stored pair
        u, v = 1, 1                  # as given in the call
    elif pat == 'swap':
        su, sv = (2, 1) if directed else (1, 2)
        u, v = 2, 1
    else:
        su, sv = 1, 2
        u, v = 1, 2
    # bystander
    if directed:
        bu, bv = sv, su              # the reverse direction is a different pair
        by = by and pat != 'loop'
    else:
        bu, bv = 1, 3
    btl = [[c0, d0]] if by else []
    if by:
        assume(c0 <= d0)
    pre_btl = [list(x) for x in btl]
    bools = list(pb)
    ints = list(pi)
    Pf, Pr, Mf, Mr = (su, sv, '+'), (sv, su, '+'), (su, sv, '-'), (sv, su, '-')
    Bp, Bm = (bu, bv, '+'), (bu, bv, '-')
    strong = cfg.get("strong_closure", False)
    minlen = 2 if strong else 3

    def pre_ev(k):
        present, pf, pr, mf, mr, op, om, bp = [bools.pop() for _ in range(8)]
        bm = bools.pop() if by else False
        if pat == 'loop' or directed:
            pr = False
            mr = False
        ok = True if cfg.get("noinv") else \
            inv.events_ok(pre_tl, k, pf & present, pr & present, mf & present, mr & present, minlen)
        if by and not cfg.get("noinv"):
            # events of the bystander pair obey the same invariant w.r.t. its own timeline
            ok = ok & inv.events_ok(pre_btl, k, bp & present, False, bm & present, False, minlen)
        elif not by:
            bp = False
        ok = ok & (((pf | pr | mf | mr | op | om | bp | bm) == False) | present)  # noqa: E712
        assume(ok)
        bits = {Pf: pf, Mf: mf, OTH_P: op, OTH_M: om}
        if not (pat == 'loop' or directed):
            bits[Pr] = pr
            bits[Mr] = mr
        if by:
            bits[Bp] = bp
            bits[Bm] = bm
        return present, Inner(bits)

    oth_at = []

    def pre_sn(k):
        oth = ints.pop()
        assume(oth >= 0)
        oth_at.append((k, oth))
        cnt = oth + _cnt(pre_tl, k) + _cnt(pre_btl, k)
        return cnt > 0, 2 * cnt

    def _cnt(tl_, k):
        return 1 if sbool(inv.present_at(tl_, k)) else 0

    g = new_graph(directed)
    if not cfg.get("removal", True):
        g.edge_removal = False
    g.time_to_edge = LazyPreMap(pre_ev, default=int)
    g.snapshots = LazyPreMap(pre_sn)
    nodes = set()
    if n > 0:
        nodes.update((su, sv))
    if by:
        nodes.update((bu, bv))
    if cfg.get("iso", False):
        nodes.update((u, v))         # endpoints already known as (isolated) nodes
    for x in sorted(nodes):
        g._node[x] = {}
        if directed:
            g._succ[x] = {}
            g._pred[x] = {}
        else:
            g._adj[x] = {}
    dd = bdd = None
    if n > 0:
        dd = {'t': tl}
        if directed:
            g._succ[su][sv] = dd
            g._pred[sv][su] = dd
        else:
            g._adj[su][sv] = dd
            g._adj[sv][su] = dd
    if by:
        bdd = {'t': btl}
        if directed:
            g._succ[bu][bv] = bdd
            g._pred[bv][bu] = bdd
        else:
            g._adj[bu][bv] = bdd
            g._adj[bv][bu] = bdd
    # (a dict literal: CrossHair's patched dict(...) constructor builds a slow symbolic-key map)
    return {"g": g, "tl": tl, "pre_tl": pre_tl, "btl": btl, "pre_btl": pre_btl, "u": u, "v": v, "su": su, "sv": sv,
            "bu": bu, "bv": bv, "by": by, "Pf": Pf, "Pr": Pr, "Mf": Mf, "Mr": Mr, "Bp": Bp, "Bm": Bm, "oth_at": oth_at,
            "dd": dd, "bdd": bdd, "nodes": nodes, "minlen": minlen, "directed": directed, "pat": pat, "n": n}


def new_graph(directed):
    """Empty graph; constructed outside tracing (networkx's __init__ is concrete and slow to trace)."""
    if NATIVE:
        return dn.DynDiGraph() if directed else dn.DynGraph()
    from crosshair.tracers import NoTracing
    with NoTracing():
        return dn.DynDiGraph() if directed else dn.DynGraph()


def timeline_of(g, directed, u, v):
    adj = g._succ if directed else g._adj
    return adj[u][v]['t']


def step(cfg, a0, b0, a1, b1, a2, b2, c0, d0, t, l, q, pb, pi):
    what = cfg["what"]
    L = cfg["L"]
    S = setup(cfg, a0, b0, a1, b1, a2, b2, c0, d0, pb, pi)
    g, directed, pat, n = S["g"], S["directed"], S["pat"], S["n"]
    u, v, su, sv = S["u"], S["v"], S["su"], S["sv"]
    pre_tl, pre_btl = S["pre_tl"], S["pre_btl"]
    removal = cfg.get("removal", True)
    assume((0 <= l) & (l <= L))
    if cfg.get("lfix") is not None:
        assume(l == cfg["lfix"])
    e = None if l == 0 else t + l
    f = t if (l == 0 or not removal) else t + l - 1
    pinned = removal and n > 0 and l == 0 and sbool(pre_tl[-1][0] == pre_tl[-1][1]) and sbool(t == pre_tl[-1][1] + 1)
    if cfg.get("region") == "not_pinned":
        assume(not pinned)
    if cfg.get("region") == "pinned":
        assume(pinned)
    was = sbool(inv.present_at(pre_tl, q))
    bwas = sbool(inv.present_at(pre_btl, q))
    # pre-state at q is materialised before the call so that "unchanged" can be stated
    evq = snq = pre_pres_q = pre_bits_q = pre_sn_q = oth_q = None
    if what in ('ev', 'close'):
        evq = g.time_to_edge._find(q)
        pre_pres_q = evq[1]
        pre_bits_q = evq[2].bits()
    if what in ('snap',):
        snq = g.snapshots._find(q)
        pre_sn_q = (snq[1], snq[2])
        oth_q = S["oth_at"][-1][1]
    should_reject = n > 0 and sbool(t < pre_tl[-1][0])
    if cfg.get("only_reject"):
        assume(should_reject)
    nodes_before = set(g._node)
    try:
        g.add_interaction(u, v, t, e)
    except ValueError:
        reach("rejected")
        if not should_reject:
            return False
        # C07: no trace
        return unchanged(S, evq, pre_pres_q, pre_bits_q, snq, pre_sn_q, nodes_before)
    except nx.NetworkXError:
        return False
    if should_reject:
        return False
    reach("accepted")
    tl2 = timeline_of(g, directed, u, v)
    exp = was or sbool((t <= q) & (q <= f))
    if n > 0:
        me = pre_tl[-1][1]
        if sbool(t > me + 1):
            reach("append")
        elif sbool(f > me):
            reach("extend")
        else:
            reach("contained")
    if exp and not was:
        reach("q_new")

    if what == 'pres':
        if sbool(g.has_interaction(u, v, q)) != exp:
            return False
        if not directed and sbool(g.has_interaction(v, u, q)) != exp:
            return False
        if not g.has_interaction(u, v) or (not directed and not g.has_interaction(v, u)):
            return False
        if S["by"]:
            if sbool(g.has_interaction(S["bu"], S["bv"], q)) != bwas:
                return False
            if S["bdd"]['t'] != pre_btl:
                return False
        elif directed and pat != 'loop':
            if g.has_interaction(v, u, q) or g.has_interaction(v, u):
                return False
        if g.has_interaction(u, 99, q) or g.has_interaction(98, 99) or g.has_interaction(98, u, q):
            return False
        return True
    if what == 'inv1':
        if not inv.canonical(tl2):
            return False
        if sbool(inv.present_at(tl2, q)) != exp:
            return False
        if directed:
            if g._succ[u][v] is not g._pred[v][u]:
                return False
        else:
            if g._adj[u][v] is not g._adj[v][u]:
                return False
        if u not in g._node or v not in g._node:
            return False
        if n > 0 and tl2 is not S["tl"]:
            return False
        # earlier runs untouched
        for i in range(n - 1):
            if tl2[i] != pre_tl[i]:
                return False
        return True
    if what == 'snap':
        ent = g.snapshots._find(q)
        cnt = oth_q + (1 if exp else 0) + (1 if bwas else 0)
        if cnt == 0:
            return not sbool(ent[1])
        return sbool(ent[1]) and sbool(ent[2] == 2 * cnt)
    if what in ('ev', 'close'):
        ev = g.time_to_edge._find(q)
        pr, inn = ev[1], ev[2]

        def bit(x):
            if inn is None:
                return False
            return pr & inn.bit(x)
        if directed or pat == 'loop':
            ok = inv.events_ok(tl2, q, bit(S["Pf"]), False, bit(S["Mf"]), False, S["minlen"])
        else:
            ok = inv.events_ok(tl2, q, bit(S["Pf"]), bit(S["Pr"]), bit(S["Mf"]), bit(S["Mr"]), S["minlen"])
        if not ok:
            return False
        # events of other pairs at q are untouched (identity first: an untouched bit is the very same symbolic object)
        for x in (OTH_P, OTH_M) + ((S["Bp"], S["Bm"]) if S["by"] else ()):
            b0 = _get(pre_bits_q, x)
            if pr is pre_pres_q and inn is not None and inn.bit(x) is b0:
                continue
            if sbool(bit(x)) != sbool(pre_pres_q & b0):
                return False
        return True
    if what == 'trace':
        return True
    raise AssertionError(what)


def _get(pairs, x):
    for k_, b_ in pairs:
        if k_ == x:
            return b_
    return False


def unchanged(S, evq, pre_pres_q, pre_bits_q, snq, pre_sn_q, nodes_before):
    g = S["g"]
    if set(g._node) != nodes_before:
        return False
    adj = g._succ if S["directed"] else g._adj
    if S["n"] > 0:
        if adj[S["su"]][S["sv"]] is not S["dd"] or S["dd"]['t'] is not S["tl"] or S["tl"] != S["pre_tl"]:
            return False
        if S["directed"] and g._pred[S["sv"]][S["su"]] is not S["dd"]:
            return False
        if not S["directed"] and adj[S["sv"]][S["su"]] is not S["dd"]:
            return False
    else:
        if S["su"] in adj and S["sv"] in adj[S["su"]]:
            return False
    # every instant that was looked up still has the content it was materialised with (identity first: no forks)
    for ent in g.time_to_edge.ent:
        if ent[1] is not ent[3] and sbool(ent[1]) != sbool(ent[3]):
            return False
        if sbool(ent[3]):
            now = ent[2].bits() if ent[2] is not None else []
            for (k0, b0), (k1, b1) in zip(ent[4], now):
                if k0 != k1 or (b1 is not b0 and sbool(b1) != sbool(b0)):
                    return False
            if len(now) != len(ent[4]):
                return False
    for ent in g.snapshots.ent:
        if ent[1] is not ent[3] and sbool(ent[1]) != sbool(ent[3]):
            return False
        if sbool(ent[3]) and ent[2] is not ent[4] and not sbool(ent[2] == ent[4]):
            return False
    return True


# frame condition: add_interaction only reads and writes the latest run --------------------------------------------
def T_frame(a: int, b: int, t: int, l: int, pb: B48, pi: I8) -> bool:
    pass


def frame(cfg, a, b, t, l, pb, pi):
    s0, s1 = Sentinel(), Sentinel()
    cfg2 = {}
    for k_ in cfg:
        cfg2[k_] = cfg[k_]
    cfg2["n"] = 1
    cfg2["by"] = False
    S = setup(cfg2, a, b, 0, 0, 0, 0, 0, 0, pb, pi)
    S["tl"].insert(0, s1)
    S["tl"].insert(0, s0)
    assume((0 <= l) & (l <= cfg["L"]))
    e = None if l == 0 else t + l
    try:
        S["g"].add_interaction(S["u"], S["v"], t, e)
    except ValueError:
        reach("rejected")
        return sbool(t < a)
    reach("accepted")
    tl = S["tl"]
    return tl[0] is s0 and tl[1] is s1 and len(tl) in (3, 4)


def patterns():
    """(key, directed, pat, by, iso) combinations."""
    return [("u_same", False, "same", False), ("u_swap", False, "swap", False), ("u_loop", False, "loop", False),
            ("u_same_by", False, "same", True),
            ("d_same", True, "same", False), ("d_loop", True, "loop", False), ("d_same_by", True, "same", True)]


# ---------------------------------------------------------------------------------------------------------------------
# Replay of a Layer-1 counterexample THROUGH THE PUBLIC API (native, real dicts).  The symbolic pre-state is rebuilt by a
# small family of histories; the same call is made and the full concrete oracle is evaluated.  Only a failure that shows
# up here is a violation; otherwise the pre-state is not reachable (invariant too weak) -> inconclusive.
def replay_step(cfg, args):
    import itertools
    from . import oracle
    directed, pat, n = cfg["directed"], cfg["pat"], cfg["n"]
    removal = cfg.get("removal", True)
    runs = [[args["a0"], args["b0"]], [args["a1"], args["b1"]], [args["a2"], args["b2"]]][:n]
    t, l, q = args["t"], args["l"], args["q"]
    e = None if l == 0 else t + l
    f = t if (l == 0 or not removal) else t + l - 1
    if pat == 'loop':
        su, sv, u, v = 1, 1, 1, 1
    elif pat == 'swap':
        su, sv = (2, 1) if directed else (1, 2)
        u, v = 2, 1
    else:
        su, sv, u, v = 1, 2, 1, 2
    by = cfg.get("by", False) and not (directed and pat == 'loop')
    bu, bv = (sv, su) if directed else (1, 3)
    strong = cfg.get("strong_closure", False)
    how_opts = []
    for (a, b) in runs:
        o = [("iv", False)]
        if not directed and pat != 'loop':
            o.append(("iv", True))
        if b - a <= 5:
            o.append(("pt", False))
        how_opts.append(o)
    me = runs[-1][1] if runs else t
    K = sorted({t, f + 1, me + 1, q})
    oth_opts = [None, "span", "points"]
    tried = 0
    for hows in itertools.product(*how_opts):
        for oth in oth_opts:
            for iso in ([False, True] if n == 0 else [False]):
                tried += 1
                if tried > 200:
                    break
                G = dn.DynDiGraph(edge_removal=removal) if directed else dn.DynGraph(edge_removal=removal)
                hist = []

                def call(*a, **k):
                    hist.append("add_interaction(%s)" % ", ".join([repr(x) for x in a] + ["%s=%r" % kv for kv in k.items()]))
                    G.add_interaction(*a, **k)
                try:
                    if iso:
                        G.add_node(u)
                        G.add_node(v)
                        hist.append("add_node(%r); add_node(%r)" % (u, v))
                    for (a, b), (kind, sw) in zip(runs, hows):
                        x, y = (sv, su) if sw else (su, sv)
                        if kind == "iv":
                            call(x, y, a, e=b + 1)
                        else:
                            for k_ in range(a, b + 1):
                                call(x, y, k_)
                    if by:
                        call(bu, bv, args["c0"], e=args["d0"] + 1)
                    if oth == "span":
                        call(7, 8, K[0] - 1, e=K[-1] + 2)
                    elif oth == "points":
                        for k_ in K:
                            call(7, 8, k_)
                except Exception as ex:   # the pre-state itself cannot be built this way
                    continue
                if strong and oracle.wellformed(G, strong_closure=True):
                    continue              # this history leaves the strong-closure region by itself
                pre_problems = oracle.wellformed(G, strong_closure=strong)
                if pre_problems:
                    return True, "history %s already violates the invariant: %s" % ("; ".join(hist), pre_problems[:3])
                before = oracle.state_of(G)
                pres_before = {(x, y): [list(r) for r in tl] for x, y, tl in oracle.pairs_of(G)}
                should_reject = n > 0 and t < runs[-1][0]
                try:
                    G.add_interaction(u, v, t, e)
                    rejected = False
                except ValueError:
                    rejected = True
                except Exception as ex:
                    return True, "history %s; add_interaction(%r,%r,%r,%r) raised %r" % ("; ".join(hist), u, v, t, e, ex)
                callstr = "add_interaction(%r, %r, %r, %r)" % (u, v, t, e)
                if rejected != should_reject:
                    return True, "history %s; %s %s but the documented rule says %s" % (
                        "; ".join(hist), callstr, "was rejected" if rejected else "was accepted",
                        "reject" if should_reject else "accept")
                if rejected:
                    after = oracle.state_of(G)
                    if after != before:
                        diff = [k for k in before if before[k] != after[k]]
                        return True, "history %s; rejected %s left a trace in %s" % ("; ".join(hist), callstr, diff)
                    continue
                probs = oracle.wellformed(G, strong_closure=strong and cfg.get("region") != "pinned", extra=K) + oracle.stream_ok(G)
                if cfg.get("region") == "pinned" and strong:
                    probs = oracle.wellformed(G, strong_closure=True, extra=K)
                # presence model
                after_p = {(x, y): tl for x, y, tl in oracle.pairs_of(G)}
                for key, tl in after_p.items():
                    old = pres_before.get(key, [])
                    focus = key == (su, sv) or (not directed and key == (sv, su))
                    lo = min([t, q] + [r[0] for r in old + tl]) - 2
                    hi = max([f, q] + [r[1] for r in old + tl]) + 2
                    if hi - lo > 5000:
                        pts = sorted({q, t, f, t - 1, f + 1} | {r[i] + d for r in old + tl for i in (0, 1) for d in (-1, 0, 1)})
                    else:
                        pts = range(lo, hi + 1)
                    for k_ in pts:
                        expct = oracle.present(old, k_) or (focus and (t <= k_ <= f if removal else False))
                        if removal:
                            got = G.has_interaction(key[0], key[1], k_)
                            if got != expct:
                                probs.append("has_interaction%r at %r is %r, expected %r" % (key, k_, got, expct))
                                break
                for key in pres_before:
                    if key not in after_p:
                        probs.append("pair %r disappeared" % (key,))
                if probs:
                    return True, "history %s; %s -> %s" % ("; ".join(hist), callstr, probs[:4])
    return False, "no public-API history (of %d tried) reproduces the failure: pre-state unreachable or harness artefact" % tried


def register_matrix(REG, what, prefix, asserts, quick, split, tags, extra_cfg=None, ns=(0, 1, 2, 3), Ls=(2, 4),
                    keys=None, twins=1, bounds_extra=""):
    """Register the (pattern x n x L [x l]) matrix of Layer-1 conditions for one conjunct `what`."""
    for key, directed, pat, by in patterns():
        if keys is not None and key not in keys:
            continue
        for n in ns:
            for L in Ls:
                if by and (n in (0, 3) or L == 4):
                    continue
                if L == 4 and n >= 2:
                    continue            # thorough tier: 4-instant spans on timelines with <= 1 run (the frame condition lifts n)
                isq = quick(key, n, L, by)
                lfixes = list(range(0, L + 1)) if (split(key, n, L, by) or (L == 4 and n == 1)) else [None]
                for lf in lfixes:
                    cfg = {"directed": directed, "pat": pat, "by": by, "n": n, "L": L, "what": what, "lfix": lf}
                    if extra_cfg:
                        cfg.update(extra_cfg)
                    name = "%s_%s_n%d_L%d%s" % (prefix, key, n, L, "" if lf is None else "_l%d" % lf)
                    span = ("point (no vanishing time) or interval of 1..%d instants (symbolic length)" % L) if lf is None \
                        else ("point add, no vanishing time" if lf == 0 else "interval of exactly %d instant(s)" % lf)
                    REG.add(name, T_step, step, cfg=cfg, tier="quick" if isq else "thorough",
                            timeout=900 if isq else 2400,
                            bounds="one add_interaction(%s) from an ARBITRARY invariant-satisfying state (lazily materialised "
                                   "counter and event index); focus timeline with n=%d symbolic canonical runs%s; span: %s; "
                                   "all timestamps and the query instant q are unbounded integers%s" %
                                   (key, n, " + bystander pair with one symbolic run" if by else "", span, bounds_extra),
                            tags=tags(n), twins=twins, replay=replay_step, what=asserts)
