"""C18 - readers skip noise rows; timestamp compaction is an order-preserving bijection."""
from typing import Tuple

import dynetx as dn
from dynetx.readwrite import edgelist
from dynetx.utils.transform import compact_timeslot

from . import build, models
from .core import Registry, I4, I8
from .models import assume, reach, sbool, tok, untok

REG = Registry("C18")
REG.notes += [
    "M4: timestamps travel through the text rows as opaque tokens ('@k' <-> symbolic int) via the readers' own "
    "timestamptype parameter; assumes int(str(x)) == x for Python ints.  Node fields are concrete decimal strings, nodetype=int",
    "rows are generated from a grammar by symbolic kind selectors (valid 3/4-column rows, '+'/'-' rows, blank, whitespace, "
    "comment-only, 1-2 fields, trailing comment, extra columns, padded); arbitrary byte noise is outside the claim",
    "read_ids' file scan is not executed symbolically (opens the file by name, local dict keyed by timestamps: M9); only its "
    "use of compact_timeslot and the keys= remapping of the parsers are covered",
]
FUNCTIONS = ["dynetx/readwrite/edgelist.py:parse_snapshots", "dynetx/readwrite/edgelist.py:parse_interactions",
             "dynetx/utils/transform.py:compact_timeslot"]

models.install()      # M1 maps also for the graphs the parsers create themselves
edgelist.parse_snapshots(["1 2 3", "# c", "1 2 4 6 # x"], nodetype=int, timestamptype=int)
edgelist.parse_interactions(["1 2 + 3", "", "1 2 - 6"], nodetype=int, timestamptype=int)
edgelist.parse_interactions(["1 2 + 3", "", "1 2 - 6"], nodetype=int, timestamptype=int, directed=True)
edgelist.parse_snapshots(["1 2 3", "# c", "1 2 4 6 # x"], nodetype=int, timestamptype=int, directed=True)
compact_timeslot([3, 1, 2])

SNAP_KINDS = ["valid3", "valid4", "blank", "ws", "comment", "short1", "short2", "trailing", "extra", "padded", "valid3b"]
INT_KINDS = ["plus", "minus", "blank", "ws", "comment", "short3", "trailing", "extra", "padded", "plusb"]


def join(fields, d):
    return (" " if d is None else d).join(fields)


def snap_row(kind, i, t, e, d, cm):
    """(text line, fields of the clean row or None)"""
    u, v = str(10 * i + 1), str(10 * i + 2)      # every row has its own pair: the merge logic of add_interaction is C01-C05
    if kind == "valid3":
        return join([u, v, tok(t)], d), (u, v, t, None)
    if kind == "valid3b":
        return join([v, u, tok(t)], d), (v, u, t, None)
    if kind == "valid4":
        return join([u, v, tok(t), tok(e)], d), (u, v, t, e)
    if kind == "blank":
        return "", None
    if kind == "ws":
        return "   \t ", None
    if kind == "comment":
        return cm + " 1 2 3", None
    if kind == "short1":
        return u, None
    if kind == "short2":
        return join([u, v], d), None
    if kind == "trailing":
        return join([u, v, tok(t)], d) + " " + cm + " note 9 9 9", (u, v, t, None)
    if kind == "extra":
        return join([u, v, tok(t), tok(e), "77"], d), (u, v, t, e)
    if kind == "padded":
        return "  " + join([u, v, tok(t)], d) + "  ", (u, v, t, None)
    raise AssertionError(kind)


def T_rows(k0: int, k1: int, k2: int, ts: I4, ls: I4, q: int) -> bool:
    pass


def snap_body(cfg, k0, k1, k2, ts, ls, q):
    d, cm, nrows, directed = cfg["delimiter"], cfg["comments"], cfg["rows"], cfg["directed"]
    kinds = [k0, k1, k2][:nrows]
    lines, clean = [], []
    for i, kd in enumerate(kinds):
        fixed = cfg["fixed"][i]
        if fixed is not None:
            assume(kd == 0)
            idx = SNAP_KINDS.index(fixed)
        else:
            assume((0 <= kd) & (kd < len(SNAP_KINDS)))
            idx = 0
            while sbool(idx < kd):
                idx += 1
        l = ls[i]
        assume((1 <= l) & (l <= 2))
        line, c = snap_row(SNAP_KINDS[idx], i, ts[i], ts[i] + l, d, cm)
        lines.append(line + ("\n" if cfg.get("newline") else ""))
        if c is not None:
            clean.append(c)
        if SNAP_KINDS[idx] in ("trailing", "extra", "comment"):
            reach("noise_" + SNAP_KINDS[idx])
    ref = build.new_graph(directed)
    ref_err = False
    for (u, v, t, e) in clean:
        try:
            ref.add_interaction(int(u), int(v), t, e)
        except ValueError:
            ref_err = True
            break
    try:
        g = edgelist.parse_snapshots(lines, comments=cm, directed=directed, delimiter=d, nodetype=int, timestamptype=untok)
    except ValueError:
        reach("rejected_row")
        return ref_err
    if ref_err:
        return False
    if len(clean) == nrows:
        reach("all_valid")
    if type(g) is not type(ref):
        return False
    return build.same_state(g, ref)


def int_row(kind, i, t, d, cm):
    u, v = ("1", "2") if kind == "minus" or i == 0 else (str(10 * i + 1), str(10 * i + 2))
    if kind == "plus":
        return join([u, v, "+", tok(t)], d), (u, v, "+", t)
    if kind == "plusb":
        return join([v, u, "+", tok(t)], d), (v, u, "+", t)
    if kind == "minus":
        return join([u, v, "-", tok(t)], d), (u, v, "-", t)
    if kind == "blank":
        return "", None
    if kind == "ws":
        return "  ", None
    if kind == "comment":
        return cm + "1 2 + 3", None
    if kind == "short3":
        return join([u, v, "+"], d), None
    if kind == "trailing":
        return join([u, v, "+", tok(t)], d) + " " + cm + "x", (u, v, "+", t)
    if kind == "extra":
        return join([u, v, "+", tok(t), "5"], d), None
    if kind == "padded":
        return " " + join([u, v, "+", tok(t)], d) + " ", (u, v, "+", t)
    raise AssertionError(kind)


def int_body(cfg, k0, k1, k2, ts, ls, q):
    d, cm, nrows, directed = cfg["delimiter"], cfg["comments"], cfg["rows"], cfg["directed"]
    kinds = [k0, k1, k2][:nrows]
    lines, clean = [], []
    have_plus = False
    for i, kd in enumerate(kinds):
        fixed = cfg["fixed"][i]
        if fixed is not None:
            assume(kd == 0)
            idx = INT_KINDS.index(fixed)
        else:
            assume((0 <= kd) & (kd < len(INT_KINDS)))
            idx = 0
            while sbool(idx < kd):
                idx += 1
        kind = INT_KINDS[idx]
        if kind == "minus":
            assume(have_plus)            # well-formed logs: a '-' follows a '+' of its pair
            assume((ts[i] - ts[i - 1] >= 0) & (ts[i] - ts[i - 1] <= 3))
        line, c = int_row(kind, i, ts[i], d, cm)
        lines.append(line)
        if c is not None:
            clean.append(c)
            if c[2] == "+" and c[0] == "1":
                have_plus = True
        if kind in ("trailing", "extra", "comment", "short3"):
            reach("noise_" + kind)
    # reference: the clean rows alone, written with the default delimiter
    clean_lines = [" ".join([u, v, op, tok(t)]) for (u, v, op, t) in clean]
    ref_err = False
    ref = None
    try:
        ref = edgelist.parse_interactions(clean_lines, directed=directed, nodetype=int, timestamptype=untok)
    except ValueError:
        ref_err = True
    try:
        g = edgelist.parse_interactions(lines, comments=cm, directed=directed, delimiter=d, nodetype=int, timestamptype=untok)
    except ValueError:
        return ref_err
    if ref_err:
        return False
    # direct reference for the '+' rows (a '+' row is add_interaction(u,v,t))
    if all(c[2] == "+" for c in clean):
        ref2 = build.new_graph(directed)
        for (u, v, op, t) in clean:
            ref2.add_interaction(int(u), int(v), t)
        reach("plus_only")
        if not build.same_state(g, ref2):
            return False
    return build.same_state(g, ref)


def T_bad(t: int) -> bool:
    pass


def bad_body(cfg, t):
    bad_node, bad_ts = cfg["bad_node"], cfg["bad_ts"]
    u = "x1" if bad_node else "1"
    # (concrete valid fields: the error message formats them, and formatting a symbolic int never exhausts)
    tt = "zz" if bad_ts else "7"
    for fn, line in ((edgelist.parse_snapshots, " ".join([u, "2", tt])),
                     (edgelist.parse_snapshots, " ".join([u, "2", "7", tt])),
                     (edgelist.parse_interactions, " ".join([u, "2", "+", tt]))):
        try:
            fn([line], nodetype=int, timestamptype=untok)
            return False
        except TypeError:
            reach("type_error")
    return True


I6 = Tuple[int, int, int, int, int, int]


def T_compact(xs: I6, n: int) -> bool:
    pass


def compact_body(cfg, xs, n):
    k = cfg["k"]
    vals = list(xs)[:k]
    for i in range(k):
        for j in range(i):
            assume(vals[i] != vals[j])
    conv = compact_timeslot(vals)
    if len(conv) != k:
        return False
    seen = []
    for i in range(k):
        rank = 0
        for j in range(k):
            if sbool(vals[j] < vals[i]):
                rank += 1
        r = conv[vals[i]]
        if sbool(r != rank):
            return False
        seen.append(rank)
    if sorted(seen) != list(range(k)):
        return False
    if k >= 2 and sbool(vals[0] > vals[1]):
        reach("unsorted_input")
    return True


def keys_body(cfg, k0, k1, k2, ts, ls, q):
    """parsers given keys=compact_timeslot(all timestamps) == parsers run on rank-replaced rows."""
    directed = cfg["directed"]
    t0, t1 = ts[0], ts[1]
    assume((ls[0] >= 1) & (ls[0] <= 2))
    e1 = t1 + ls[0]
    allts = []
    for x in ((t0, t1, e1) if cfg["fmt"] == "snap" else (t0, e1)):
        if not any(sbool(x == y) for y in allts):
            allts.append(x)
    keys = compact_timeslot(allts)

    def rk(x):
        return sum(1 for y in allts if sbool(y < x))
    if cfg["fmt"] == "snap":
        rows = [("1", "2", t0, None), ("3", "4", t1, e1)]
        lines = [" ".join([u, v, tok(t)] + ([tok(e)] if e is not None else [])) for u, v, t, e in rows]
        rlines = [" ".join([u, v, str(rk(t))] + ([str(rk(e))] if e is not None else [])) for u, v, t, e in rows]
        fn = edgelist.parse_snapshots
    else:
        assume(t0 == t1)
        rows = [("1", "2", "+", t0), ("1", "2", "-", e1)]
        lines = [" ".join([u, v, op, tok(t)]) for u, v, op, t in rows]
        rlines = [" ".join([u, v, op, str(rk(t))]) for u, v, op, t in rows]
        fn = edgelist.parse_interactions
    err = ref_err = False
    g = ref = None
    try:
        g = fn(lines, directed=directed, nodetype=int, timestamptype=untok, keys=keys)
    except ValueError:
        err = True
    try:
        ref = fn(rlines, directed=directed, nodetype=int, timestamptype=int)
    except ValueError:
        ref_err = True
    if err or ref_err:
        reach("rejected_row")
        return err == ref_err
    reach("accepted")
    return build.same_state(g, ref)


DN = {None: "ws", ",": "comma", "\t": "tab", " ": "sp"}
SHAPES = {"snap": {2: [(None, None)], 3: [("valid3", None, None)]},
          "int": {2: [(None, None), ("plus", None)], 3: [("plus", "minus", None)]}}
for fmt, body_, nk in (("snap", snap_body, len(SNAP_KINDS)), ("int", int_body, len(INT_KINDS))):
    for directed in (False, True):
        for d in (None, ",", "\t", " "):
            for cm in ("#", "%"):
                for rows in (2, 3):
                    for si, shape in enumerate(SHAPES[fmt][rows]):
                        quick = rows == 2 and ((cm == "#" and not directed) or (cm == "%" and directed and d in (",", " ")))
                        if rows == 3 and (cm == "%" or d == "\t" or (directed and d != " ")):
                            continue
                        REG.add("%s_%s_d%s_c%s_r%d_s%d" % (fmt, "d" if directed else "u", DN[d], "h" if cm == "#" else "p", rows, si),
                                T_rows, body_, cfg=dict(delimiter=d, comments=cm, rows=rows, directed=directed, fixed=shape),
                                tier="quick" if quick else "thorough", timeout=900 if quick else 1800,
                                tags=["noise_trailing", "noise_extra", "noise_comment"], twins=1,
                                bounds="%d rows %r (None = any of the %d grammar kinds, symbolic selector), delimiter %r, comment marker "
                                       "%r, unbounded symbolic timestamps (4-column spans 1..2), %s" %
                                       (rows, shape, nk, d, cm, "directed" if directed else "undirected"),
                                what=("parse_snapshots(noisy lines) raises ValueError iff the explicit add_interaction sequence of the "
                                      "valid rows does, else yields a graph equal (nodes, timelines, whole counter and whole event index) to that explicit sequence" if fmt == "snap" else
                                      "parse_interactions(noisy lines) equals parse_interactions(valid rows alone) and, for '+'-only "
                                      "logs, the explicit add_interaction sequence (same comparison)"))
for bn, bt in ((True, False), (False, True)):
    REG.add("typeerror_%s" % ("node" if bn else "ts"), T_bad, bad_body, cfg=dict(bad_node=bn, bad_ts=bt), tier="quick", timeout=60,
            tags=["type_error"], twins=1, bounds="one row with a non-convertible %s field" % ("node" if bn else "timestamp"),
            what="a node or timestamp field that cannot be converted raises TypeError (3- and 4-column snapshot rows, interaction rows)")
for k in (1, 2, 3, 4, 5, 6):
    REG.add("compact_k%d" % k, T_compact, compact_body, cfg=dict(k=k), tier="quick" if k <= 4 else "thorough",
            timeout=300 if k <= 4 else 3000, tags=(["unsorted_input"] if k >= 2 else []), twins=1,
            bounds="%d distinct unbounded symbolic integers in arbitrary order" % k,
            what="compact_timeslot maps every value to its rank: a strictly increasing bijection onto 0..k-1")
for fmt in ("snap", "int"):
    for directed in (False, True):
        REG.add("keys_%s_%s" % (fmt, "d" if directed else "u"), T_rows, keys_body, cfg=dict(fmt=fmt, directed=directed),
                tier="quick" if not directed else "thorough", timeout=900, tags=["accepted"], twins=1,
                bounds="2 rows (snapshot: a 3-column and a 4-column row over 2 pairs; interactions: '+' then '-' of one pair) with "
                       "unbounded symbolic timestamps (possibly equal), keys = compact_timeslot(distinct timestamps of the rows)",
                what="parser(rows, keys=compact_timeslot(ts)) equals parser(rows with every timestamp replaced by its rank)")
