"""Condition registry.  A *condition* is one PEP-316 contract function (`post: _`) executed symbolically by CrossHair.
Only the functions produced by make() carry contracts; bodies, oracles and models are contract-free."""
import inspect
from dataclasses import dataclass, field
from typing import Callable, Dict, List, Optional, Tuple

from . import models

B4 = Tuple[bool, bool, bool, bool]
B8 = Tuple[bool, bool, bool, bool, bool, bool, bool, bool]
B16 = Tuple[bool, bool, bool, bool, bool, bool, bool, bool, bool, bool, bool, bool, bool, bool, bool, bool]
B48 = Tuple[bool, bool, bool, bool, bool, bool, bool, bool, bool, bool, bool, bool, bool, bool, bool, bool,
            bool, bool, bool, bool, bool, bool, bool, bool, bool, bool, bool, bool, bool, bool, bool, bool,
            bool, bool, bool, bool, bool, bool, bool, bool, bool, bool, bool, bool, bool, bool, bool, bool]
I4 = Tuple[int, int, int, int]
I8 = Tuple[int, int, int, int, int, int, int, int]


@dataclass
class Cond:
    name: str
    fn: Callable                      # the contract function analysed by CrossHair
    body: Callable                    # contract-free body, called natively for replays
    cfg: dict
    tier: str = "quick"               # "quick": runs in both tiers; "thorough": thorough tier only
    timeout: float = 120.0            # CrossHair per_condition_timeout (CPU seconds)
    bounds: str = ""                  # the stated bounds (structural; all integers are unbounded unless said)
    tags: List[str] = field(default_factory=list)   # reach tags that must be reachable (vacuity guard)
    twins: int = 1                    # number of tags for which a reachability twin is analysed in the quick tier
    finding: Optional[str] = None     # id in known_findings.json: the condition is expected to be REFUTED
    replay: Optional[Callable] = None  # replay(args: dict) -> (reproduced: bool, detail: str), through the public API
    what: str = ""                    # one line: what the condition asserts
    functions: List[str] = field(default_factory=list)  # filled by native witness runs


def make(name, template, body, **cfg):
    """Build the contract function `name` with the signature of `template`; it runs body(cfg, *args)."""
    def cond(*args, **kwargs):
        """
        post: _
        """
        models.TAGS_PATH.clear()
        models.tok_reset()
        r = body(cfg, *args, **kwargs)
        r = True if r else False
        for _t in list(models.TAGS_PATH):
            models.TAGS_DONE.add(_t)
        return r
    cond.__name__ = cond.__qualname__ = name
    cond.__signature__ = inspect.signature(template)
    cond.__annotations__ = dict(template.__annotations__)
    return cond


def make_twin(c: Cond, tag: str):
    def twin(*args, **kwargs):
        """
        post: _
        """
        models.TAGS_PATH.clear()
        models.tok_reset()
        r = c.body(c.cfg, *args, **kwargs)
        r = True if r else False
        return tag not in models.TAGS_PATH
    twin.__name__ = twin.__qualname__ = "twin__" + c.name + "__" + tag
    twin.__signature__ = inspect.signature(c.fn)
    twin.__annotations__ = dict(c.fn.__annotations__)
    return twin


class Registry:
    def __init__(self, prop):
        self.prop = prop
        self.conds: Dict[str, Cond] = {}
        self.notes: List[str] = []       # assumptions / stubs, copied into evidence

    def add(self, name, template, body, **kw):
        cfg = kw.pop("cfg", {})
        fn = make(name, template, body, **cfg)
        c = Cond(name=name, fn=fn, body=body, cfg=cfg, **kw)
        assert name not in self.conds, name
        self.conds[name] = c
        return c

    def select(self, tier):
        return [c for c in self.conds.values() if tier == "thorough" or c.tier == "quick"]
