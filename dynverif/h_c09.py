"""C09 - snapshot edge-list files round-trip the presence relation."""
import io
import os
import shutil
import tempfile

import dynetx as dn
from dynetx.readwrite import edgelist

from . import build, inv, models
from .core import Registry
from .models import assume, reach, sbool, tok, untok

REG = Registry("C09")
REG.notes += [
    "M4: edgelist.make_str is replaced by a token stub for symbolic ints (decimal rendering is outside the claim: "
    "int(str(x)) == x is assumed); everything else - the open_file decorator, encode/decode, split, gzip/bz2 streams, real "
    "temporary files - is the real code on concrete bytes while timestamps stay symbolic end to end",
    "M5: gzip's header clock is stubbed to a constant",
    "M3 source graphs with runs of at most L+1 instants (the writer expands every run into one row per instant)",
]
FUNCTIONS = ["dynetx/readwrite/edgelist.py:write_snapshots", "dynetx/readwrite/edgelist.py:generate_snapshots",
             "dynetx/readwrite/edgelist.py:read_snapshots", "dynetx/readwrite/edgelist.py:parse_snapshots",
             "dynetx/utils/decorators.py:open_file"]
models.install()
models.stub_environment()
_real_make_str = edgelist.make_str
edgelist.make_str = lambda x: tok(x) if not isinstance(x, str) else x


def _warm():
    d = tempfile.mkdtemp(prefix="dynverif_")
    try:
        for c in (dn.DynGraph, dn.DynDiGraph):
            g = c()
            g.add_interaction(1, 2, 0, 3)
            g.add_interaction(2, 1, 5)
            for name in ("a.txt", "a.gz", "a.bz2"):
                p = os.path.join(d, name)
                dn.write_snapshots(g, p, delimiter=",", encoding="latin-1")
                dn.read_snapshots(p, directed=c is dn.DynDiGraph, delimiter=",", nodetype=int, timestamptype=int, encoding="latin-1")
            b = io.BytesIO()
            dn.write_snapshots(g, b)
            b.seek(0)
            dn.read_snapshots(b, nodetype=int, timestamptype=int)
    finally:
        shutil.rmtree(d, ignore_errors=True)


_warm()

_SCRATCH = []


def scratch_dir():
    """Per-process scratch directory under the system temp dir (created outside tracing: mkdtemp uses random, which
    CrossHair makes symbolic); removed at process exit, files are removed after every path."""
    import atexit
    if not _SCRATCH:
        d = os.path.join(tempfile.gettempdir(), "dynverif_%d" % os.getpid())
        os.makedirs(d, exist_ok=True)
        _SCRATCH.append(d)
        atexit.register(shutil.rmtree, d, True)
    return _SCRATCH[0]


scratch_dir()
SHAPES = {
    "one_n2": [(0, 1, 2)],
    "loop_edge": [(0, 0, 1), (0, 1, 1)],
    "recip": [(0, 1, 1), (1, 0, 1)],
    "back_edge": [(0, 1, 1), (2, 0, 1)],
}


def T_io(a0: int, b0: int, a1: int, b1: int, q: int) -> bool:
    pass


def mk_graph(cfg, a0, b0, a1, b1):
    directed = cfg["directed"]
    names = cfg["names"]
    g = build.new_graph(directed)
    for nm in names:
        build.add_node_raw(g, nm)
    vals = [a0, b0, a1, b1]
    pairs = []
    for (i, j, n) in SHAPES[cfg["shape"]]:
        tl = []
        for _ in range(n):
            tl.append([vals.pop(0), vals.pop(0)])
        assume(inv.canonical_nf(tl))
        for ab in tl:
            assume(ab[1] - ab[0] <= cfg["L"])
        build.put_pair(g, names[i], names[j], tl, index=False)
        pairs.append((names[i], names[j], tl))
    return g, pairs


def expected_rows(pairs):
    rows = []
    for (u, v, tl) in pairs:
        for ab in tl:
            k = ab[0]
            while sbool(k <= ab[1]):
                rows.append((u, v, k))
                k = k + 1
    return rows


def match_rows(got, exp):
    """Same multiset of (u, v, t) rows."""
    if len(got) != len(exp):
        return False
    used = [False] * len(got)
    for (u, v, t) in exp:
        hit = False
        for i, (x, y, s) in enumerate(got):
            if not used[i] and x == u and y == v and sbool(s == t):
                used[i] = True
                hit = True
                break
        if not hit:
            return False
    return True


def body(cfg, a0, b0, a1, b1, q):
    directed, d, enc, target = cfg["directed"], cfg["delimiter"], cfg["encoding"], cfg["target"]
    g, pairs = mk_graph(cfg, a0, b0, a1, b1)
    nodetype = int if isinstance(cfg["names"][0], int) else str
    tmp = None
    try:
        if target == "bytesio":
            out = io.BytesIO()
            dn.write_snapshots(g, out, delimiter=d, encoding=enc)
            data = out.getvalue()
            src = io.BytesIO(data)
        else:
            tmp = scratch_dir()
            path = os.path.join(tmp, {"plain": "g.txt", "gz": "g.gz", "bz2": "g.bz2", "fileobj": "g.dat"}[target])
            if target == "fileobj":
                with open(path, "wb") as fh:
                    dn.write_snapshots(g, fh, delimiter=d, encoding=enc)
            else:
                dn.write_snapshots(g, path, delimiter=d, encoding=enc)
            if target == "gz":
                import gzip
                with gzip.open(path, "rb") as fh:
                    data = fh.read()
            elif target == "bz2":
                import bz2
                with bz2.BZ2File(path, "rb") as fh:
                    data = fh.read()
            else:
                with open(path, "rb") as fh:
                    data = fh.read()
            src = path
        # the bytes: one row 'u<d>v<d>t' per interaction and per instant, orientation preserved
        text = data.decode(enc)
        lines = text.split("\n")
        if lines[-1] != "":
            return False
        got = []
        for ln in lines[:-1]:
            f = ln.split(d)
            if len(f) != 3:
                return False
            got.append((nodetype(f[0]), nodetype(f[1]), untok(f[2])))
        exp = expected_rows(pairs)
        if len(exp) > len(pairs):
            reach("multi_instant")
        if not match_rows(got, exp):
            return False
        if target == "fileobj":
            with open(src, "rb") as fh:
                h = dn.read_snapshots(fh, directed=directed, delimiter=d, nodetype=nodetype, timestamptype=untok, encoding=enc)
        else:
            h = dn.read_snapshots(src, directed=directed, delimiter=d, nodetype=nodetype, timestamptype=untok, encoding=enc)
    finally:
        if tmp is not None:
            for fn_ in os.listdir(tmp):
                os.unlink(os.path.join(tmp, fn_))
    if type(h) is not type(g):
        return False
    names = cfg["names"]
    for u in names:
        for v in names:
            exp = False
            for (x, y, tl) in pairs:
                if (x, y) == (u, v) or (not directed and (y, x) == (u, v)):
                    exp = exp or sbool(inv.present_at(tl, q))
            if exp:
                reach("present_at_q")
            if sbool(h.has_interaction(u, v, q)) != exp:
                return False
    return build.wellformed_at(h, q, minlen=3)


def T_four(t0: int, l0: int, t1: int, l1: int, q: int) -> bool:
    pass


def four_body(cfg, t0, l0, t1, l1, q):
    """A four-column row 'u v t e' is read as the span t..e-1."""
    assume((1 <= l0) & (l0 <= cfg["L"]) & (1 <= l1) & (l1 <= cfg["L"]))
    d = cfg["delimiter"]
    dd = " " if d is None else d
    rows = [("1", "2", t0, t0 + l0), ("2", "1", t1, t1 + l1)]
    data = "".join(dd.join([u, v, tok(t), tok(e)]) + "\n" for (u, v, t, e) in rows).encode("utf-8")
    try:
        h = dn.read_snapshots(io.BytesIO(data), directed=cfg["directed"], delimiter=d, nodetype=int, timestamptype=untok)
    except ValueError:
        reach("rejected")
        return (not cfg["directed"]) and sbool(t1 < t0)
    if (not cfg["directed"]) and sbool(t1 < t0):
        return False
    p12 = sbool((t0 <= q) & (q < t0 + l0))
    p21 = sbool((t1 <= q) & (q < t1 + l1))
    if p12 or p21:
        reach("present_at_q")
    if cfg["directed"]:
        if sbool(h.has_interaction(1, 2, q)) != p12 or sbool(h.has_interaction(2, 1, q)) != p21:
            return False
    else:
        if sbool(h.has_interaction(1, 2, q)) != (p12 or p21) or sbool(h.has_interaction(2, 1, q)) != (p12 or p21):
            return False
    return build.wellformed_at(h, q, minlen=2)


INTS = [1, 2, 3]
STRS = ["a", "bb", "c"]
UNI = ["\u00e9", "n\u00f1", "z"]
GRID = []
for directed in (False, True):
    for shape in SHAPES:
        if shape in ("recip", "back_edge") and not directed:
            continue
        GRID.append((directed, shape))
TARGETS = ["bytesio", "plain", "gz", "bz2", "fileobj"]
DELIMS = [" ", ",", "\t", ";"]
ENCS = ["utf-8", "ascii", "latin-1"]
# registered under C03 too (h_c03._ctor): must exist whatever selection of the grid the thorough tier uses
PINNED = {"rt_u_one_n2_bytesio_d0_utf8_int", "rt_d_recip_plain_d1_latin1_int"}
k = 0
for (directed, shape) in GRID:
    for ti, target in enumerate(TARGETS):
        for di, d in enumerate(DELIMS):
            for ei, enc in enumerate(ENCS):
                for names in (INTS, STRS, UNI):
                    if names is UNI and enc == "ascii":
                        continue
                    # quick: a diagonal of the configuration grid; thorough: the full grid
                    ni = {id(INTS): 0, id(STRS): 1, id(UNI): 2}[id(names)]
                    quick = (ti + 2 * di + 3 * ei + 5 * ni + k) % 19 == 0
                    # thorough: every third configuration of the grid (the full grid of 964 conditions was run once during the
                    # build: 964/964 confirmed, see evidence_thorough/C09_fullgrid_run.json; it takes ~4 h on 16 busy cores)
                    # (conditions in PINNED are registered by name under another property as well and are never thinned out)
                    name = "rt_%s_%s_%s_d%d_%s_%s" % ("d" if directed else "u", shape, target, di, enc.replace("-", ""),
                                                      {0: "int", 1: "str", 2: "uni"}[ni])
                    if not quick and (ti + di + ei + ni + k) % 3 != 0 and name not in PINNED:
                        continue
                    REG.add(name, T_io, body,
                            cfg=dict(directed=directed, shape=shape, target=target, delimiter=d, encoding=enc, names=names,
                                     L=1 if quick else 2),
                            tier="quick" if quick else "thorough", timeout=600,
                            tags=["present_at_q", "multi_instant"], twins=1,
                            bounds="%s shape %s (symbolic canonical timelines, runs <= %d instants), target %s, delimiter %r, "
                                   "encoding %s, %s node ids; unbounded q" % ("DynDiGraph" if directed else "DynGraph", shape,
                                                                              2 if quick else 3, target, d, enc,
                                                                              {0: "int", 1: "ascii str", 2: "non-ascii str"}[ni]),
                            what="the written bytes decode to exactly one row 'u<d>v<d>t' per interaction and present instant "
                                 "(orientation kept); read_snapshots with matching parameters returns a graph of the right class "
                                 "with has_interaction(u,v,q) == presence in G for all ordered pairs, satisfying Inv1-Inv3 at q")
    k += 4
for directed in (False, True):
    for d in (None, ","):
        REG.add("four_col_%s_%s" % ("d" if directed else "u", "ws" if d is None else "comma"), T_four, four_body,
                cfg=dict(directed=directed, delimiter=d, L=2), tier="quick", timeout=600, tags=["present_at_q"], twins=1,
                bounds="two rows 'u v t e' (pair 1-2 in both orders), unbounded symbolic t, spans of 1..2 instants",
                what="a four-column row is read as the span t..e-1 (rejected rows only by the documented rule)")
assert PINNED <= set(REG.conds), sorted(PINNED - set(REG.conds))
