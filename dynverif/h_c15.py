"""C15 - temporal_dag is acyclic, sound and window-respecting."""
import networkx as nx
import dynetx.algorithms.paths as paths

from . import models
from .core import Registry, B48
from .models import assume, reach, sbool
from .pathmodel import LazyG, window_ids, install_fast_nx
from . import h_c12  # warm-up and stubs

REG = Registry("C15")
REG.notes += list(h_c12.REG.notes[:1]) + [
    "self-loops: a dedicated condition lets the root carry a self-loop bit at every id (LazyGLoop)",
    "the bare root u is a node of the DAG without a time stamp (it is added first and never gets an edge): allowed as an "
    "isolated node",
]
FUNCTIONS = ["dynetx/algorithms/paths.py:temporal_dag"]
install_fast_nx(paths)
_d = nx.DiGraph()
_d.add_edge("0_0", "1_0")
nx.is_directed_acyclic_graph(_d), _d.degree("0_0"), list(_d.nodes()), list(_d.edges())


def is_dag(DG):
    return models.untraced(nx.is_directed_acyclic_graph, DG)


class LazyGLoop(LazyG):
    """LazyG whose nodes may carry self-loops (one more lazily decided bit per node and id)."""

    def bit(self, a, b, t):
        if a == b and a in self.nodes_ and t in self.ids:
            k = (a, a, t)
            if k not in self.dec:
                self.dec[k] = sbool(self.pool.pop())
            return self.dec[k]
        return LazyG.bit(self, a, b, t)

    def neighbors(self, n, t=None):
        r = LazyG.neighbors(self, n, t)
        if t is not None and n in self.nodes_ and self.bit(n, n, t):
            r = r + [n]
        return r


def T_dag(start: int, end: int, pb: B48) -> bool:
    pass


def parse(name, node_type):
    if not isinstance(name, str) or "_" not in name:
        return None
    n, t = name.rsplit("_", 1)
    return node_type(n), int(t)


def body(cfg, start, end, pb):
    nodes = h_c12.names(cfg)
    ids = cfg["ids"]
    cls = LazyGLoop if cfg.get("loops") else LazyG
    G = cls(nodes, ids, cfg["directed"], pb)
    u = nodes[cfg["u"]]
    v = None if cfg["v"] is None else nodes[cfg["v"]]
    s = None if cfg["start_none"] else start
    e = None if cfg["end_none"] else end
    # bounds within 2 of the id range: the ValueError message formats them, and formatting an unbounded symbolic int
    # never exhausts (it is enumerated value by value)
    if s is not None:
        assume((ids[0] - 2 <= s) & (s <= ids[-1] + 2))
    if e is not None:
        assume((ids[0] - 2 <= e) & (e <= ids[-1] + 2))
    es = ids[0] if s is None else s
    ee = ids[-1] if e is None else e
    return dag_checks(G, G, u, v, s, e)


def dag_checks(G, O, u, v, s, e):
    """G: the graph handed to temporal_dag (LazyG or a real DynGraph); O: the oracle side (LazyG over the same bits)."""
    ids = O.ids
    es = ids[0] if s is None else s
    ee = ids[-1] if e is None else e
    valid = sbool((ids[0] <= es) & (es <= ee) & (ee <= ids[-1]))
    try:
        DG, sources, targets, nt, tt = paths.temporal_dag(G, u, v, s, e)
    except ValueError:
        reach("invalid_window")
        return not valid
    if not valid:
        return False
    wid = window_ids(O, s, e)
    node_type = type(u)
    if not is_dag(DG):
        return False
    for x in DG.nodes():
        if x == u and not isinstance(x, str) or (isinstance(u, str) and x == u):
            if DG.degree(x) != 0:
                return False
            continue
        if parse(x, node_type) is None:
            return False
    srcset = set(sources)
    for (x, y) in DG.edges():
        px, py = parse(x, node_type), parse(y, node_type)
        if px is None or py is None:
            return False
        (X, sx), (Y, ty) = px, py
        if ty not in wid:
            return False
        if not O.bit(X, Y, ty):
            return False
        if not (sx < ty or (x in srcset and sx == ty)):
            return False
        reach("edge")
    # sources: exactly the occurrences of u at window ids where u has a neighbour
    exp_src = ["%s_%s" % (u, t) for t in wid if O.neighbors(u, t)]
    if sorted(sources) != sorted(exp_src) or len(set(sources)) != len(sources):
        return False
    for x in sources:
        if x not in DG:
            return False
    for y in targets:
        if y not in DG:
            return False
        py = parse(y, node_type)
        if py is None or py[1] not in wid:
            return False
        if v is not None and py[0] != v:
            return False
    if not sources:
        reach("no_source")
    return True


def empty_body(cfg, start, end, pb):
    G = LazyG([0, 1, 2], [], cfg["directed"], pb)
    DG, sources, targets, nt, tt = paths.temporal_dag(G, 0, None, None, None)
    reach("empty")
    return len(DG) == 0 and sources == [] and targets == []


for directed in (False, True):
    for strnodes in (False, True):
        for ids, N in (([0, 1], 3), ([0, 1, 2], 3), ([0, 2, 3], 3), ([1, 3, 4, 6], 3), ([0, 1, 2], 4)):
            for v in (None, 1, 0):
                for (sn, en) in ((False, False), (True, True), (True, False), (False, True)):
                    for loops in (False, True):
                        if loops and (N == 4 or directed or len(ids) > 3):
                            continue
                        quick = (ids == [0, 1, 2] and N == 3 and not strnodes and (sn, en) in ((False, False), (True, True))
                                 and v in (None, 1) and not directed and not loops) \
                            or (loops and ids == [0, 1] and not strnodes and v is None and (sn, en) == (True, True)) \
                            or (ids == [0, 2, 3] and strnodes and v is None and not sn and not en and not directed and not loops) \
                            or (directed and ids == [0, 1] and not strnodes and v in (None, 1) and (sn, en) in ((False, False), (True, True)) and not loops)
                        keep = quick or (not directed and N == 3 and ids in ([0, 1, 2], [0, 2, 3]) and v in (None, 1) and not loops
                                         and (sn, en) in ((False, False), (True, True))) \
                            or (directed and ids in ([0, 1], [0, 1, 2]) and N == 3 and not strnodes and v is None and (sn, en) == (True, True))
                        if not keep:
                            continue
                        REG.add("dag_%s_%s_ids%s_N%d_v%s_%s%s%s" % ("d" if directed else "u", "str" if strnodes else "int",
                                                                    "".join(map(str, ids)), N, "N" if v is None else v,
                                                                    "s" if not sn else "S", "e" if not en else "E", "_loops" if loops else ""),
                                T_dag, body, cfg=dict(directed=directed, strnodes=strnodes, ids=ids, N=N, u=0, v=v, start_none=sn,
                                                      end_none=en, loops=loops),
                                tier="quick" if quick else "thorough", timeout=900 if quick else 3000,
                                tags=["edge", "no_source"] + (["invalid_window"] if not (sn and en) else []), twins=1,
                                bounds="%s over %d %s nodes%s, snapshot ids %s, lazily decided presence bit per (pair, id), root = first "
                                       "node, target %s, window [%s, %s] with symbolic bounds ranging from first id - 2 to last id + 2 (valid and invalid)" %
                                       ("directed" if directed else "undirected", N, "string" if strnodes else "int",
                                        " with self-loop bits" if loops else "", ids, "omitted" if v is None else "node index %d" % v,
                                        "first id" if sn else "start", "last id" if en else "end"),
                                what="temporal_dag: ValueError iff the window is not inside [first id, last id] or start > end; else the "
                                     "graph is acyclic, every node is an occurrence name (the bare root is isolated), every edge X@s->Y@t "
                                     "is an interaction present at t inside the window with s<t (s=t only from a source), sources = "
                                     "occurrences of u at window ids where u has a neighbour, targets are occurrences (of v) in the "
                                     "window, both are DAG nodes")
    REG.add("dag_empty_%s" % ("d" if directed else "u"), T_dag, empty_body, cfg=dict(directed=directed), tier="quick", timeout=60,
            tags=["empty"], twins=1, bounds="graph without snapshots", what="a graph without snapshots yields an empty DAG, no sources, no targets")


# ---- eager variant on the REAL classes ---------------------------------------------------------------------------------
from .pathmodel import eager, eager_build  # noqa: E402


def T_eager(pb: B48) -> bool:
    pass


def eager_body(cfg, pb):
    names, dec = eager(cfg["N"], cfg["ids"], cfg["directed"], pb, cfg["strnodes"], cfg.get("prefix", ()))
    if sum(1 for x in dec.values() if x) >= 3:
        reach("three_interactions")
    return models.untraced(eager_run, cfg, names, dec)


def eager_run(cfg, names, dec):
    g, O = eager_build(names, cfg["ids"], cfg["directed"], dec)
    if not O.ids:
        DG, so, ta, _, _ = paths.temporal_dag(g, names[0])
        return len(DG) == 0 and so == [] and ta == []
    lo, hi = cfg["ids"][0] - 1, cfg["ids"][-1] + 1
    wins = [(None, None)] + [(a, b) for a in range(lo, hi + 1) for b in range(lo, hi + 1)]
    for u in names:
        if u not in g._node:
            continue                      # the property quantifies over roots that are nodes of the graph
        for v in [None] + names:
            for (s, e) in wins:
                if not dag_checks(g, O, u, v, s, e):
                    return False
    return True


for directed, ids in ((False, [0, 1, 2]), (True, [0, 1])):
    for strnodes in (False, True):
        REG.add("eager_%s_%s" % ("d" if directed else "u", "str" if strnodes else "int"), T_eager, eager_body,
                cfg=dict(directed=directed, ids=ids, N=3, strnodes=strnodes), tier="quick" if not strnodes else "thorough", timeout=1500,
                tags=["three_interactions"], twins=1,
                bounds="EVERY real %s on 3 %s nodes over snapshot ids %s (one presence bit per pair and id, built through the public "
                       "API), every root, every target (and none), every window with bounds in [first id - 1, last id + 1]" %
                       ("DynDiGraph" if directed else "DynGraph", "string" if strnodes else "int", ids),
                what="the same assertions as dag_*, with temporal_dag running on the real class instead of the LazyG model")


for _N, _ids, _pl in ((3, [0, 1, 2, 3], 1), (4, [0, 1], 1), (3, [1, 3, 4, 6], 1)):
    for _pi in range(2 ** _pl):
        _prefix = [bool(_pi >> k & 1) for k in range(_pl)]
        REG.add("eager_u_N%d_ids%s_p%d" % (_N, "".join(map(str, _ids)), _pi), T_eager, eager_body,
                cfg=dict(directed=False, ids=_ids, N=_N, strnodes=False, prefix=_prefix), tier="thorough", timeout=6000,
                tags=["three_interactions"], twins=1,
                bounds="EVERY real DynGraph on %d int nodes over snapshot ids %s whose first %d presence bits are %s (partition %d of "
                       "%d), built through the public API; every source/root, target, window" % (_N, _ids, _pl, _prefix, _pi, 2 ** _pl),
                what="as eager_u_int on a larger universe")

# dropped from the thorough tier (directed 3x3 universe: past 60 min; see DESIGN.md 12.9)
import re as _re  # noqa: E402
for _n in [n for n, c in REG.conds.items() if c.tier == "thorough" and _re.search(r"^dag_d_int_ids012_N3_vN_SE$", n)]:
    del REG.conds[_n]

