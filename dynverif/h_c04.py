"""C04 - snapshot ids are the inhabited instants; per-snapshot counts are exact (Layer 1 part: Inv2 is inductive)."""
from . import step
from .core import Registry

REG = Registry("C04")
REG.notes += [
    "M2: the pre-state counter at every touched instant k is 2*(oth_k + [focus present at k] + [bystander present at k]) "
    "with oth_k >= 0 an arbitrary fresh integer (number of other interactions present at k); absent iff that is 0",
    "interactions_per_snapshots(t) is snapshots[t]/2 (M8: real division)",
]
FUNCTIONS = ["dynetx/classes/dyngraph.py:DynGraph.add_interaction", "dynetx/classes/dyndigraph.py:DynDiGraph.add_interaction"]

step.register_matrix(
    REG, "snap", "snap",
    "after the call, for the arbitrary instant q: q is a snapshot id iff some interaction is present at q, and the stored "
    "count is exactly 2 x (number of interactions present at q)",
    quick=lambda key, n, L, by: L == 2 and (n <= 1 or (n == 2 and key in ("u_same", "d_same"))),
    split=lambda key, n, L, by: n >= 1 and (by or n >= 2),
    tags=lambda n: ["accepted", "q_new"] + (["append", "extend", "contained"] if n else []))
