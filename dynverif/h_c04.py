"""C04 - snapshot ids are the inhabited instants; per-snapshot counts are exact (Layer 1 part: Inv2 is inductive)."""
from . import step
from .core import Registry

REG = Registry("C04")
REG.notes += [
    "M2: the pre-state counter at every touched instant k is 2*(oth_k + [focus present at k] + [bystander present at k]) "
    "with oth_k >= 0 an arbitrary fresh integer (number of other interactions present at k); absent iff that is 0",
    "interactions_per_snapshots(t) is snapshots[t]/2 (M8: real division)",
]
FUNCTIONS = ["dynetx/classes/dyngraph.py:DynGraph.add_interaction", "dynetx/classes/dyndigraph.py:DynDiGraph.add_interaction"]

step.register_matrix(
    REG, "snap", "snap",
    "after the call, for the arbitrary instant q: q is a snapshot id iff some interaction is present at q, and the stored "
    "count is exactly 2 x (number of interactions present at q)",
    quick=lambda key, n, L, by: L == 2 and (n <= 1 or (n == 2 and key in ("u_same", "d_same"))),
    split=lambda key, n, L, by: n >= 1 and (by or n >= 2),
    tags=lambda n: ["accepted", "q_new"] + (["append", "extend", "contained"] if n else []))


# ---- Layer 2: the readers project the counter (explicit M3 states: concrete run lengths, symbolic starts) ---------------
import dynetx as dn  # noqa: E402
from . import build, inv, models  # noqa: E402
from .h_c10 import SHAPES as L2_SHAPES, mk as l2_mk  # noqa: E402
from .models import reach, sbool  # noqa: E402

_w = dn.DynGraph()
_w.add_interaction(1, 2, 0, 3)
_w.temporal_snapshots_ids(), _w.interactions_per_snapshots(), _w.interactions_per_snapshots(1), _w.avg_number_of_nodes()
dn.temporal_snapshots_ids(_w), dn.interactions_per_snapshots(_w), dn.interactions_per_snapshots(_w, 1)
_w = dn.DynDiGraph()
_w.add_interaction(1, 2, 0, 3)
_w.temporal_snapshots_ids(), _w.interactions_per_snapshots(), _w.interactions_per_snapshots(1), _w.avg_number_of_nodes()


def T_l2(s0: int, s1: int, s2: int, q: int) -> bool:
    pass


def readers_body(cfg, s0, s1, s2, q):
    g, pairs = l2_mk(cfg, [s0, s1, s2])
    ids = g.temporal_snapshots_ids()
    if list(dn.temporal_snapshots_ids(g)) != list(ids):
        return False
    prev = None
    for k in ids:
        if prev is not None and not sbool(prev < k):
            return False                                   # ascending, duplicate free
        prev = k
        if not any(sbool(inv.present_at(tl, k)) for (u, v, tl) in pairs):
            return False                                   # every id is inhabited
    inst = 0
    for (u, v, tl) in pairs:
        for ab in tl:
            k = ab[0]
            while sbool(k <= ab[1]):
                if not any(sbool(k == i) for i in ids):
                    return False                           # every inhabited instant is an id
                k = k + 1
                inst += 1
    if len(ids) < inst:
        reach("shared_instant")
    cnt_q = sum(1 for (u, v, tl) in pairs if sbool(inv.present_at(tl, q)))
    for got in (g.interactions_per_snapshots(q), dn.interactions_per_snapshots(g, q), g.interactions_per_snapshots(t=q)):
        if not sbool(got == cnt_q):
            return False
    if cnt_q:
        reach("q_inhabited")
    for allc in (g.interactions_per_snapshots(), dn.interactions_per_snapshots(g)):
        if len(allc) != len(ids):
            return False
        for k in ids:
            c = sum(1 for (u, v, tl) in pairs if sbool(inv.present_at(tl, k)))
            if k not in allc or not sbool(allc[k] == c):
                return False
    tot = sum(g.number_of_nodes(k) for k in ids)
    a = g.avg_number_of_nodes()
    return a == tot / len(ids) or sbool(a * len(ids) == tot)


for _directed in (False, True):
    for _shape in L2_SHAPES:
        if _shape.startswith("recip") and not _directed:
            continue
        if _shape == "unclosed2":
            continue
        REG.add("readers_%s_%s" % ("d" if _directed else "u", _shape), T_l2, readers_body, cfg=dict(directed=_directed, shape=_shape),
                tier="quick", timeout=900,
                tags=["q_inhabited"] + (["shared_instant"] if len(L2_SHAPES[_shape]) > 1 else []), twins=1,
                bounds="%s with interactions %s (u, v, run lengths-1, closing flags), unbounded symbolic run starts (all relative "
                       "positions), explicit counter; unbounded q" % ("DynDiGraph" if _directed else "DynGraph", L2_SHAPES[_shape]),
                what="temporal_snapshots_ids() is strictly ascending and equals the set of inhabited instants; "
                     "interactions_per_snapshots(q) is the number of interactions present at q (0 elsewhere), without argument the "
                     "same for every id; avg_number_of_nodes() is the mean of number_of_nodes(t) over the ids; dn.* forms agree")
