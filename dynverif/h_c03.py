"""C03 - timelines are canonical: sorted, disjoint, non-adjacent closed intervals (Layer 1 part; Layer 3 part below)."""
from . import step
from .core import Registry

REG = Registry("C03")
REG.notes += [
    "M1/M2 arbitrary invariant-satisfying pre-state (see C01)",
    "frame condition: runs before the latest one are replaced by sentinels that raise on any access, so the n<=3 result "
    "extends to timelines of any length",
]
FUNCTIONS = ["dynetx/classes/dyngraph.py:DynGraph.add_interaction", "dynetx/classes/dyndigraph.py:DynDiGraph.add_interaction"]

step.register_matrix(
    REG, "inv1", "inv1",
    "after an accepted call the timeline is canonical (start<=end, at least one absent instant between runs), is the same "
    "list object in both directions, covers exactly old presence + span at q, and earlier runs are untouched",
    quick=lambda key, n, L, by: L == 2 and not by and (n <= 1 or (n == 2 and key in ("u_same", "d_same"))),
    split=lambda key, n, L, by: False,
    tags=lambda n: ["accepted"] + (["append", "extend", "contained"] if n else []),
    keys=("u_same", "u_swap", "u_loop", "d_same", "d_loop"))

for key, directed, pat, by in step.patterns():
    if by:
        continue
    REG.add("frame_%s" % key, step.T_frame, step.frame,
            cfg=dict(directed=directed, pat=pat, L=2), tier="quick", timeout=300,
            bounds="timeline = [sentinel, sentinel, [a,b]]; span point or 1..2 instants; %s" % key,
            tags=["accepted", "rejected"], twins=1,
            what="add_interaction completes without reading, writing or comparing any run before the latest one")
