"""C03 - timelines are canonical: sorted, disjoint, non-adjacent closed intervals (Layer 1 part; Layer 3 part below)."""
from . import step
from .core import Registry

REG = Registry("C03")
REG.notes += [
    "M1/M2 arbitrary invariant-satisfying pre-state (see C01)",
    "frame condition: runs before the latest one are replaced by sentinels that raise on any access, so the n<=3 result "
    "extends to timelines of any length",
]
FUNCTIONS = ["dynetx/classes/dyngraph.py:DynGraph.add_interaction", "dynetx/classes/dyndigraph.py:DynDiGraph.add_interaction"]

step.register_matrix(
    REG, "inv1", "inv1",
    "after an accepted call the timeline is canonical (start<=end, at least one absent instant between runs), is the same "
    "list object in both directions, covers exactly old presence + span at q, and earlier runs are untouched",
    quick=lambda key, n, L, by: L == 2 and not by and (n <= 1 or (n == 2 and key in ("u_same", "d_same"))),
    split=lambda key, n, L, by: False,
    tags=lambda n: ["accepted"] + (["append", "extend", "contained"] if n else []),
    keys=("u_same", "u_swap", "u_loop", "d_same", "d_loop"))

for key, directed, pat, by in step.patterns():
    if by:
        continue
    REG.add("frame_%s" % key, step.T_frame, step.frame,
            cfg=dict(directed=directed, pat=pat, L=2), tier="quick", timeout=300,
            bounds="timeline = [sentinel, sentinel, [a,b]]; span point or 1..2 instants; %s" % key,
            tags=["accepted", "rejected"], twins=1,
            what="add_interaction completes without reading, writing or comparing any run before the latest one")


# ---- Layer 3: every graph the library itself produces has canonical timelines.  The conditions of C06/C16/C09/C10/C11 assert
# Inv1 (canonical timeline, shared entry, no aliasing with the source) on their results; a selection of them is registered
# here as well, so that C03's own check covers the derived constructors.
def _ctor():
    from . import h_c06, h_c09, h_c10, h_c11, h_c16
    sel = [(h_c06, ["slice_u_one_n1_w2", "slice_u_one_n2_r1", "slice_d_one_n1_r1", "slice_d_recip_f10"], []),
           (h_c16, ["to_undirected_one_n2_1", "to_undirected_recip_10", "to_undirected_recip_02_reciprocal", "to_directed_one_n2_1",
                    "native_recip_33"], ["to_undirected_recip_2", "to_undirected_recip_n2_1_reciprocal", "to_directed_two_share_10"]),
           (h_c09, ["rt_u_one_n2_bytesio_d0_utf8_int", "rt_d_recip_plain_d1_latin1_int"], []),
           (h_c10, ["rt_u_one_21_bytesio_d0_utf8", "rt_d_recip_plain_d1_latin1"], []),
           (h_c11, ["nl_u_one_n2_int_id_plain_L1", "nl_d_recip_int_id_plain_L1"], [])]
    for mod, quick, thorough in sel:
        for tier, names in (("quick", quick), ("thorough", thorough)):
            for nm in names:
                c = mod.REG.conds[nm]
                REG.add("ctor_%s_%s" % (mod.REG.prop, nm), c.fn.__signature__ and _tmpl(c), c.body, cfg=c.cfg, tier=tier,
                        timeout=c.timeout, tags=c.tags, twins=1, bounds=c.bounds, what=c.what + " [registered under C03 for: the "
                        "result's timelines are canonical and not shared with the source]")


def _tmpl(c):
    import inspect

    def t():
        pass
    t.__signature__ = inspect.signature(c.fn)
    t.__annotations__ = dict(c.fn.__annotations__)
    return t


_ctor()
