"""C06 - time_slice keeps exactly the presence inside the window, in a new graph."""
import dynetx as dn

from . import build, inv, models
from .core import Registry
from .models import assume, reach, sbool

REG = Registry("C06")
REG.notes += [
    "M3: the source graph G is constructed directly under the invariant (time_slice reads only G's timelines and node "
    "attributes); the result H is built by the real time_slice/add_interaction on M1 maps",
    "two bound families so that the per-instant counter loop inside H.add_interaction stays bounded: runs of arbitrary length "
    "with a window of width <= W, and an arbitrary window over runs of at most L+1 instants",
]
FUNCTIONS = ["dynetx/classes/dyngraph.py:DynGraph.time_slice", "dynetx/classes/dyndigraph.py:DynDiGraph.time_slice",
             "dynetx/classes/function.py:time_slice"]
models.install()
for _c in (dn.DynGraph, dn.DynDiGraph):
    _g = _c()
    _g.add_node(9, color="x")
    _g.add_interaction(1, 2, 0, 5)
    _g.add_interaction(2, 1, 7, 9)
    _g.add_interaction(1, 1, 3)
    _h = _g.time_slice(1, 8)
    _h.has_interaction(1, 2, 3), _h.nodes(), dn.time_slice(_g, 2), list(_h.stream_interactions())


def T_slice(a0: int, b0: int, a1: int, b1: int, c0: int, d0: int, tf: int, tt: int, q: int) -> bool:
    pass


def make_G(cfg, a0, b0, a1, b1, c0, d0):
    directed, shape = cfg["directed"], cfg["shape"]
    g = build.new_graph(directed)
    for n in (1, 2, 3, 9):
        build.add_node_raw(g, n, {"label": "n%d" % n, "w": [n]})
    pairs = []
    if shape == "one_n1":
        pairs = [(1, 2, [[a0, b0]])]
    elif shape == "one_n2":
        pairs = [(1, 2, [[a0, b0], [a1, b1]])]
    elif shape == "loop_n2":
        pairs = [(1, 1, [[a0, b0], [a1, b1]])]
    elif shape == "two_share":
        pairs = [(1, 2, [[a0, b0]]), (3, 2, [[c0, d0]])]
    elif shape == "recip":
        pairs = [(1, 2, [[a0, b0]]), (2, 1, [[c0, d0]])]
    elif shape == "recip_n2":
        pairs = [(2, 1, [[a0, b0], [a1, b1]]), (1, 2, [[c0, d0]])]
    elif shape == "recip_n2b":
        pairs = [(1, 2, [[a0, b0], [a1, b1]]), (2, 1, [[c0, d0]])]
    pairs_done = []
    for (u, v, tl) in pairs:
        assume(inv.canonical_nf(tl))
        if cfg["mode"] == "short_runs":
            for ab in tl:
                assume(ab[1] - ab[0] <= cfg["L"])
        if cfg["mode"] == "fixed_lens":
            assume(tl[0][1] - tl[0][0] == cfg["lens"][len(pairs_done)])
        if cfg["mode"] == "fixed_n2":      # recip_n2: lens = (run0 of pair0, run1 of pair0, run of pair1)
            if len(pairs_done) == 0:
                assume((tl[0][1] - tl[0][0] == cfg["lens"][0]) & (tl[1][1] - tl[1][0] == cfg["lens"][1]))
            else:
                assume(tl[0][1] - tl[0][0] == cfg["lens"][2])
        pairs_done.append(1)
        build.put_pair(g, u, v, tl, index=False)
    return g, pairs


def body(cfg, a0, b0, a1, b1, c0, d0, tf, tt, q):
    directed = cfg["directed"]
    g, pairs = make_G(cfg, a0, b0, a1, b1, c0, d0)
    pre = [(u, v, [list(x) for x in tl]) for (u, v, tl) in pairs]
    pre_nodes = {n: dict(g._node[n]) for n in g._node}
    if cfg["mode"] == "narrow_window":
        assume(tt - tf <= cfg["W"])
    if cfg.get("none"):
        assume(tt == tf)
    try:
        if cfg.get("dn"):
            h = dn.time_slice(g, tf, None if cfg.get("none") else tt)
        else:
            h = g.time_slice(tf, None if cfg.get("none") else tt)
    except ValueError:
        reach("invalid_window")
        return sbool(tt < tf)
    if sbool(tt < tf):
        return False
    if type(h) is not type(g) or h is g:
        return False
    inwin = sbool((tf <= q) & (q <= tt))
    surv_nodes = set()
    for (u, v, tl) in pre:
        exp = inwin and sbool(inv.present_at(tl, q))
        if exp:
            reach("q_kept")
        if sbool(inv.present_at(tl, q)) and not inwin:
            reach("q_cut")
        if sbool(h.has_interaction(u, v, q)) != exp:
            return False
        if not directed and u != v and sbool(h.has_interaction(v, u, q)) != exp:
            return False
        # does the pair survive at all?  (some run meets the window)
        meets = False
        for ab in tl:
            if sbool((ab[0] <= tt) & (tf <= ab[1])):
                meets = True
                if sbool(ab[0] < tf) or sbool(ab[1] > tt):
                    reach("run_clipped")
        if meets:
            surv_nodes.update((u, v))
        if bool(h.has_interaction(u, v)) != meets:
            return False
    # no other pair appears
    listed = [(u, v) for (u, v, tl) in pre]
    for (u, v, tl) in build.timelines(h):
        if (u, v) not in listed and (directed or (v, u) not in listed):
            return False
    if set(h._node) != surv_nodes:
        return False
    if not surv_nodes:
        reach("empty_result")
    for n in h._node:
        if h._node[n] != pre_nodes[n]:
            return False
    # G observably unchanged
    if set(g._node) != set(pre_nodes):
        return False
    for n in g._node:
        if g._node[n] != pre_nodes[n]:
            return False
    for (u, v, tl), (_, _, old) in zip(pairs, pre):
        cur = (g._succ if directed else g._adj)[u][v]['t']
        if cur is not tl or not build.tl_equal(cur, old):
            return False
    if len(build.timelines(g)) != len(pairs):
        return False
    # H is itself well formed (C03-C05 on the result), strong closure: every span was added with a vanishing time
    if not build.wellformed_at(h, q, minlen=1):
        return False
    if cfg.get("twice"):
        # slicing a slice == slicing by the intersection (second window [tf+s1, tt-s2] inside/outside)
        lo, hi = tf + cfg["twice"][0], tt + cfg["twice"][1]
        try:
            h2 = h.time_slice(lo, hi)
        except ValueError:
            return sbool(hi < lo)
        ilo = lo if sbool(lo > tf) else tf
        ihi = hi if sbool(hi < tt) else tt
        if sbool(ihi < ilo):
            return len(h2._node) == 0 and len(build.timelines(h2)) == 0
        h3 = g.time_slice(ilo, ihi)
        reach("sliced_twice")
        return build.same_state(h2, h3, ordered_nodes=False)
    return True


_SHAPES = ["one_n1", "one_n2", "loop_n2", "two_share", "recip"]
for directed in (False, True):
    for shape in _SHAPES:
        if shape.startswith("recip") and not directed:
            continue
        two = shape in ("two_share", "recip")
        if two:
            variants = [("fixed_lens", lens) for lens in ((0, 0), (1, 0), (0, 1), (1, 1), (2, 1), (1, 2))]
        else:
            variants = [("narrow_window", 2), ("short_runs", 1), ("narrow_window", 3), ("short_runs", 2)]
        for mode, par in variants:
            if two:
                quick = par in ((1, 0), (0, 1)) if shape == "recip" else par in ((1, 0),)
                if directed and shape == "two_share":
                    quick = False
            else:
                quick = par <= (2 if mode == "narrow_window" else 1) and not (shape == "loop_n2" and mode == "short_runs")
            cfg = dict(directed=directed, shape=shape, mode=mode)
            cfg[{"narrow_window": "W", "short_runs": "L", "fixed_lens": "lens"}[mode]] = par
            bnd = {"narrow_window": "runs of any length, window width <= %s" % (par,),
                   "short_runs": "any window, runs of at most %s+1 instants" % (par,),
                   "fixed_lens": "any window, one run per pair with (end-start) = %s, symbolic starts" % (par,)}[mode]
            REG.add("slice_%s_%s_%s%s" % ("d" if directed else "u", shape, {"narrow_window": "w", "short_runs": "r", "fixed_lens": "f"}[mode],
                                          par if not two else "%d%d" % par),
                    T_slice, body, cfg=cfg, tier="quick" if quick else "thorough", timeout=900 if quick else 3000,
                    # single-instant runs (lens (0,0)) cannot be clipped
                    tags=["q_kept", "q_cut", "invalid_window", "empty_result"] + ([] if par == (0, 0) else ["run_clipped"]), twins=1,
                    bounds="%s, shape %s with symbolic canonical timelines, isolated node 9 and node attributes; %s; unbounded t_from, "
                           "t_to (valid and invalid), q" % ("DynDiGraph" if directed else "DynGraph", shape, bnd),
                    what="H has G's class; H.has_interaction(u,v,q) iff t_from<=q<=t_to and present in G at q (both orders if "
                         "undirected, flattened form iff some run meets the window); H's nodes = endpoints of surviving pairs with "
                         "G's attributes; G unchanged; H satisfies Inv1-Inv3 with every run closed at q; t_to<t_from raises ValueError")
    for shape in ("one_n1", "two_share" if not directed else "recip"):
        REG.add("slice_%s_%s_none" % ("d" if directed else "u", shape), T_slice, body,
                cfg=dict(directed=directed, shape=shape, mode="narrow_window", W=0, none=True, dn=True),
                tier="quick", timeout=600, tags=["q_kept", "q_cut"], twins=1,
                bounds="as slice_*, window given as dn.time_slice(G, t_from) with t_to omitted",
                what="t_to defaults to t_from; the module-level dn.time_slice agrees")
    for tw in ((1, -1), (-1, 1), (1, 1), (0, -2)):
        for shape, W in (("one_n1", 2), ("one_n2", 3)):
            REG.add("slice_%s_twice_%s_%d_%d" % ("d" if directed else "u", shape, tw[0] + 2, tw[1] + 2), T_slice, body,
                    cfg=dict(directed=directed, shape=shape, mode="narrow_window", W=W, twice=tw),
                    tier="quick" if tw in ((1, -1), (-1, 1)) and shape == "one_n1" else "thorough", timeout=1200,
                    tags=["sliced_twice"], twins=1,
                    bounds="%s, first window of width <= %d, second window = first with bounds shifted by %r" % (shape, W, tw),
                    what="time_slice(time_slice(G, w1), w2) equals (full state) time_slice(G, w1 intersect w2), empty when disjoint")
