"""C20 - delta-conformity is bounded, relabelling-invariant, consistent when sliding."""
from typing import Tuple

import dynetx as dn
import dynetx.algorithms as al
import dynetx.algorithms.paths as paths
import dynetx.algorithms.assortativity as asso

from . import models
from .core import Registry, B16, B4
from .models import assume, reach, sbool

REG = Registry("C20")
REG.notes += [
    "the solver's part is an exhaustive case split over presence bits (one per pair and snapshot id) and label bits: once "
    "they are decided the real DynGraph is built through the public API and delta_conformity / sliding_delta_conformity run "
    "natively (outside the tracer) on concrete values; there is no arithmetic for the solver (d ** alpha with real alpha is "
    "outside SMT), so alphas are the fixed set {0.5, 1, 2.5} and float results are compared with tolerance 1e-9 for the "
    "invariances",
    "static categorical labels with two values, profile_size=1, no hierarchies, no dynamic attributes; tqdm stubbed (M5)",
]
FUNCTIONS = ["dynetx/algorithms/assortativity.py:delta_conformity", "dynetx/algorithms/assortativity.py:sliding_delta_conformity",
             "dynetx/algorithms/paths.py:all_time_respecting_paths", "dynetx/algorithms/paths.py:annotate_paths",
             "dynetx/classes/dyngraph.py:DynGraph.time_slice"]
models.stub_environment()
ALPHAS = [0.5, 1.0, 2.5]
TYPES = ["shortest", "fastest", "foremost", "shortest_fastest", "fastest_shortest"]
TOL = 1e-9


def all_pairs(N):
    return [(i, j) for i in range(N) for j in range(i + 1, N)]


def build_graph(N, ids, pres, labs, perm=None, swap=False, pairs=None):
    pairs = pairs or all_pairs(N)
    g = dn.DynGraph()
    ren = (lambda x: x) if perm is None else (lambda x: perm[x])
    for n in range(N):
        lab = ('x' if labs[n] else 'y')
        if swap:
            lab = 'y' if lab == 'x' else 'x'
        g.add_node(ren(n), lab=lab)
    k = 0
    for (u, v) in pairs:
        for t in ids:
            if pres[k]:
                g.add_interaction(ren(u), ren(v), t)
            k += 1
    return g


_g = build_graph(3, [0, 1, 2], [True] * 9, [True, False, True])
al.delta_conformity(_g, 0, 2, [1.0], ['lab'])
al.sliding_delta_conformity(_g, 1, [1.0], ['lab'])

B12 = Tuple[bool, bool, bool, bool, bool, bool, bool, bool, bool, bool, bool, bool, bool, bool, bool, bool]


def T_conf(pres: B12, labs: B4) -> bool:
    pass


def close(a, b):
    return abs(a - b) <= TOL


def check_case(cfg, cp, cl):
    """Everything here is concrete and runs natively."""
    N, ids = cfg["N"], cfg["ids"]
    pairs = cfg.get("pairs") or all_pairs(N)
    g = build_graph(N, ids, cp, cl, pairs=pairs)
    tids = g.temporal_snapshots_ids()
    if not tids:
        return True
    perm = {i: (i + 1) % N for i in range(N)}
    g_perm = build_graph(N, ids, cp, cl, perm=perm, pairs=pairs)
    g_swap = build_graph(N, ids, cp, cl, swap=True, pairs=pairs)
    homog = len(set(cl[:N])) == 1
    for start in cfg["starts"]:
        for delta in cfg["deltas"]:
            for pt in cfg["types"]:
                res = al.delta_conformity(g, start, delta, ALPHAS, ['lab'], path_type=pt)
                win = [t for t in tids if start <= t <= start + delta]
                if not win:
                    if res is not None:
                        return False
                    continue
                if res is None:
                    return False
                if sorted(res.keys()) != sorted("%.2f" % a for a in ALPHAS):
                    return False
                present = sorted(n for n in range(N) if any(cp[k * len(ids) + ids.index(start)] for k, (u, v) in
                                                            enumerate(pairs) if n in (u, v))) if start in ids else []
                r_perm = al.delta_conformity(g_perm, start, delta, ALPHAS, ['lab'], path_type=pt)
                r_swap = al.delta_conformity(g_swap, start, delta, ALPHAS, ['lab'], path_type=pt)
                # nodes reaching another node within the window (brute force on the time-respecting paths of the slice)
                sl = g.time_slice(start, start + delta)
                reach_any = set()
                if sl.temporal_snapshots_ids():
                    sp = al.all_time_respecting_paths(sl, max(start, min(win)), min(max(win), start + delta))
                    for (a, b), pl in sp.items():
                        if a != b and pl:
                            reach_any.add(a)
                for a in ALPHAS:
                    d = res["%.2f" % a]
                    if list(d.keys()) != ['lab']:
                        return False
                    sc = d['lab']
                    if sorted(sc.keys()) != present:
                        return False
                    for n, val in sc.items():
                        if not (-1.0 - TOL <= val <= 1.0 + TOL):
                            return False
                        if not close(val, r_swap["%.2f" % a]['lab'][n]):
                            return False
                        if not close(val, r_perm["%.2f" % a]['lab'][perm[n]]):
                            return False
                        if homog:
                            if not close(val, 1.0 if n in reach_any else 0.0):
                                return False
    for delta in cfg["deltas"]:
        for pt in cfg["types"][:cfg.get("sliding_types", 3)]:
            sres = al.sliding_delta_conformity(g, delta, ALPHAS, ['lab'], path_type=pt)
            exp = {}
            for t in tids:
                if t + delta < tids[-1]:
                    dc = al.delta_conformity(g, t, delta, ALPHAS, ['lab'], path_type=pt)
                    if dc is None:
                        continue
                    for a, data in dc.items():
                        for attr, nv in data.items():
                            for n, val in nv.items():
                                exp.setdefault(a, {}).setdefault(attr, {}).setdefault(n, []).append((t + delta, val))
            got = {a: {attr: {n: list(seq) for n, seq in nv.items()} for attr, nv in data.items()} for a, data in sres.items()}
            if got != exp:
                return False
    return True


def body(cfg, pres, labs):
    N, ids = cfg["N"], cfg["ids"]
    nb = len(cfg.get("pairs") or all_pairs(N)) * len(ids)
    cl = []
    for i in range(N):                                 # decide every bit under tracing ...
        fl = cfg.get("fixlabs") or []
        if i < len(fl):
            assume(labs[i] == fl[i])
            cl.append(fl[i])
        else:
            cl.append(sbool(labs[i]))
    pre = list(cfg.get("prefix") or [])
    cp = pre + [sbool(b) for b in list(pres)[:nb - len(pre)]]
    if sum(cp) >= 4:
        reach("dense")
    if len(set(cl)) == 1:
        reach("homogeneous")
    return models.untraced(check_case, cfg, cp, cl)   # ... then the concrete remainder runs natively


for N, ids, tier in ((3, [0, 1, 2], "quick"), (3, [0, 1, 2, 3], "thorough")):
    for fl in ((True, True), (True, False), (False, True), (False, False)):
        if tier == "thorough" and not fl[0]:
            continue                  # (F,T) and (F,F) are the label-swapped images of (T,F) and (T,T)
        starts = ids
        if tier == "quick":
            parts = [([ids[0]], [0, 2]), ([ids[1]], [1]), ([ids[0]], [1]), ([ids[2]], [0])]
        else:
            parts = [([s], [0, 1, 2]) for s in ids]
        for pi, (st, dl) in enumerate(parts):
          for pre in ([None] if tier == "quick" else [[a, b] for a in (False, True) for b in (False, True)]):
            REG.add("conf_N%d_ids%s_l%d%d_p%d%s" % (N, "".join(map(str, ids)), fl[0], fl[1], pi,
                                                    "" if pre is None else "_b%d%d" % (pre[0], pre[1])), T_conf, body,
                    cfg=dict(N=N, ids=ids, fixlabs=list(fl), starts=st, deltas=dl, types=TYPES, sliding_types=3 if tier == "quick" else 5,
                             prefix=pre),
                    tier=tier if (tier == "thorough" or (fl[0] and pi < 3)) else "thorough", timeout=1500 if tier == "quick" else 6000,
                    tags=["dense"] + (["homogeneous"] if fl[0] == fl[1] else []), twins=1,
                    bounds=("" if pre is None else "partition with the first two presence bits fixed to %s: " % (pre,)) +
                           "every DynGraph on %d nodes over snapshot ids %s (one presence bit per pair and id: exhaustive), every 2-valued "
                           "labelling with the first two labels fixed to %s; start in %s, delta in %s, alphas %s, all five path types" %
                           (N, ids, fl, st, dl, ALPHAS),
                    what="delta_conformity: None iff the window has no snapshot, keys = alphas x {'lab'}, node set = nodes present at "
                         "start, scores in [-1,1], invariant under swapping the two label values and under renaming node ids, equal to "
                         "1 (0) for nodes that reach another node (none) when all labels coincide; sliding_delta_conformity = per-"
                         "window delta_conformity stamped t+delta for every id t with t+delta < last id")


# ---- a 4-node, 4-id universe restricted to a chain with one shortcut (0-1, 1-2, 2-3, 0-2), one common label: hop-distance
# profiles with holes ({1,1,3}) only exist here.  16 partitions of the 16 presence bits.
for _pi in range(16):
    _prefix = [bool(_pi >> k & 1) for k in range(4)]
    REG.add("conf_chain4_p%02d" % _pi, T_conf, body,
            cfg=dict(N=4, ids=[0, 1, 2, 3], pairs=[(0, 1), (1, 2), (2, 3), (0, 2)], fixlabs=[True, True, True, True], prefix=_prefix,
                     starts=[0], deltas=[3], types=TYPES, sliding_types=0),
            tier="thorough", timeout=6000, tags=["dense", "homogeneous"], twins=1,
            bounds="every DynGraph on 4 nodes over snapshot ids [0,1,2,3] whose interactions are among 0-1, 1-2, 2-3, 0-2 and whose "
                   "first 4 presence bits are %s (partition %d of 16), all nodes share one label; start 0, delta 3, alphas %s, five "
                   "path types" % (_prefix, _pi, ALPHAS),
            what="as conf_*: in particular every node that reaches another node scores exactly 1 when all labels coincide")
