"""M6: graph oracle for the path algorithms.  Snapshot ids are a concrete list; PRESENCE is symbolic: one boolean per
(pair, snapshot id), decided lazily when the algorithm (or the oracle) asks.  LazyG implements exactly the observers that
dynetx/algorithms/paths.py calls on G, with the contract that C02 establishes for the real classes.  Contract-free."""
from .models import assume, reach, sbool


class LazyG:
    def __init__(self, nodes, ids, directed, bits, extra_pair=None, fixed=None):
        self.nodes_ = list(nodes)
        self.ids = list(ids)
        self.directed = directed
        self.pool = list(bits)
        self.dec = dict(fixed or {})   # (a, b, t) -> bool, a<b index order if undirected; preset = partition of the bit space
        self.extra = extra_pair  # (x, y): a pair present at every id, disconnected from the other nodes

    def is_directed(self):
        return self.directed

    def _key(self, a, b, t):
        if not self.directed and self.nodes_.index(a) > self.nodes_.index(b):
            a, b = b, a
        return (a, b, t)

    def bit(self, a, b, t):
        """Is the interaction a-b (a->b) present at snapshot id t?  (decides the bit on first use)"""
        if a == b or t not in self.ids or a not in self.nodes_ or b not in self.nodes_:
            return False
        k = self._key(a, b, t)
        if k not in self.dec:
            self.dec[k] = sbool(self.pool.pop())
        return self.dec[k]

    # ---- the observers used by paths.py --------------------------------------------------------------------------
    def temporal_snapshots_ids(self):
        return list(self.ids)

    def neighbors(self, n, t=None):
        if self.extra and n in self.extra:
            return [x for x in self.extra if x != n] if (t is None or t in self.ids) else []
        if n not in self.nodes_:
            return []
        if t is None:
            return [m for m in self.nodes_ if m != n and any(self.bit(n, m, i) for i in self.ids)]
        return [m for m in self.nodes_ if self.bit(n, m, t)]

    successors = neighbors

    def predecessors(self, n, t=None):
        return [m for m in self.nodes_ if self.bit(m, n, t)]

    def _inc(self, n, t):
        if self.extra and n in self.extra:
            return t in self.ids
        for m in self.nodes_:
            if self.bit(n, m, t) or (self.directed and self.bit(m, n, t)):
                return True
        return False

    def has_node(self, n, t=None):
        if t is None:
            return n in self.nodes_ or bool(self.extra and n in self.extra)
        for i in self.ids:
            if sbool(t == i):
                return self._inc(n, i)
        return False

    # ---- further observers (not used by paths.py today; provided so that a refactoring that uses them still runs) -------
    def number_of_nodes(self, t=None):
        return len(self.nodes(t))

    order = number_of_nodes

    def has_interaction(self, u, v, t=None):
        if t is None:
            return any(self.bit(u, v, i) for i in self.ids)
        for i in self.ids:
            if sbool(t == i):
                return self.bit(u, v, i)
        return False

    def degree(self, n=None, t=None):
        if n is None:
            return {m: self.degree(m, t) for m in self.nodes_}
        return len(self.neighbors(n, t)) + (len(self.predecessors(n, t)) if self.directed and t is not None else 0)

    def interactions(self, nbunch=None, t=None):
        out = []
        for a in self.nodes_:
            for b in self.nodes_:
                if a == b or (not self.directed and self.nodes_.index(a) > self.nodes_.index(b)):
                    continue
                if (t is None and self.has_interaction(a, b)) or (t is not None and self.has_interaction(a, b, t)):
                    out.append((a, b, {"t": [t]}))
        return out

    def __contains__(self, n):
        return n in self.nodes_

    def __iter__(self):
        return iter(self.nodes_)

    def __len__(self):
        return len(self.nodes_)

    def nodes(self, t=None, data=False):
        allp = self.nodes_ + (list(self.extra) if self.extra else [])
        if t is None:
            return list(allp)
        for i in self.ids:
            if sbool(t == i):
                return [n for n in allp if self._inc(n, i)]
        return []


def window_ids(G, start, end):
    ids = G.ids
    s = ids[0] if start is None else start
    e = ids[-1] if end is None else end
    return [i for i in ids if sbool((s <= i) & (i <= e))]


def genuine(G, path, u, v, start, end):
    """C12: is `path` (a tuple of hops (a,b,t)) a genuine time-respecting path from u (to v) within [start,end]?"""
    if not isinstance(path, tuple) or len(path) == 0:
        return False
    wid = window_ids(G, start, end)
    prev = None
    for hop in path:
        if not isinstance(hop, tuple) or len(hop) != 3:
            return False
        a, b, t = hop
        if t not in wid:
            return False
        if not G.bit(a, b, t):
            return False
        if prev is None:
            if a != u:
                return False
        else:
            pa, pb, pt = prev
            if a != pb or not (pt < t):
                return False
            if a == pb and b == pa:
                return False                      # immediate reversal
            # waiting: a has a neighbour at every snapshot id strictly between arrival and departure
            for i in wid:
                if pt < i < t and not G.neighbors(a, i):
                    return False
        prev = hop
    if v is not None and path[-1][1] != v:
        return False
    return True


def all_paths(G, u, v, start, end):
    """C13 brute force: every hop sequence satisfying genuine(), by DFS over the same bits."""
    wid = window_ids(G, start, end)
    out = []

    def ext(path):
        a, b, t = path[-1]
        if v is None or b == v:
            out.append(tuple(path))
        for i in wid:
            if i <= t:
                continue
            nb = G.neighbors(b, i)
            if not nb:
                return                      # the occurrence of b dies at the first id without a neighbour
            for m in nb:
                if m == a and len(path) >= 1 and path[-1][0] == m and path[-1][1] == b:
                    continue                # immediate reversal of the previous hop
                ext(path + [(b, m, i)])
    for i in wid:
        for n in G.neighbors(u, i):
            ext([(u, n, i)])
    return out


def install_fast_nx(paths_module):
    """Speed only: the DAG that paths.py builds is concrete (names are f-strings of concrete node ids and snapshot ids), so
    its networkx bookkeeping (DiGraph.add_node/add_edge, all_simple_paths) is executed outside CrossHair's tracer.  The
    functions are the real networkx ones; nothing symbolic ever reaches them."""
    from .models import NATIVE
    if NATIVE or getattr(paths_module, "_dynverif_fast", False):
        return
    import types
    import networkx as nx
    from crosshair.tracers import NoTracing

    class FastDiGraph(nx.DiGraph):
        def add_edge(self, u, v, **attr):
            with NoTracing():
                return nx.DiGraph.add_edge(self, u, v, **attr)

        def add_node(self, n, **attr):
            with NoTracing():
                return nx.DiGraph.add_node(self, n, **attr)

    def all_simple_paths(G, source, target, cutoff=None):
        with NoTracing():
            return list(nx.all_simple_paths(G, source, target, cutoff=cutoff))

    proxy = types.ModuleType("networkx_proxy")
    proxy.__dict__.update(nx.__dict__)
    proxy.DiGraph = FastDiGraph
    proxy.all_simple_paths = all_simple_paths
    paths_module.nx = proxy
    paths_module._dynverif_fast = True



def eager(N, ids, directed, bits, strnodes=False, prefix=()):
    """Eager real-graph variant: all presence bits are decided first, the REAL DynGraph/DynDiGraph is built through the public
    API, and the caller runs the path code on it natively.  Returns (real graph, fully decided LazyG used as oracle side)."""
    import dynetx as dn
    names = ["a", "b", "c", "d"][:N] if strnodes else list(range(N))
    pool = list(bits)
    dec = {}
    for i, a in enumerate(names):
        for j, b in enumerate(names):
            if i == j or (not directed and i > j):
                continue
            for t in ids:
                # `prefix` presets the first bits: a partition of the bit space across conditions
                dec[(a, b, t)] = bool(prefix[len(dec)]) if len(dec) < len(prefix) else sbool(pool.pop())
    return names, dec


def eager_build(names, ids, directed, dec):
    import dynetx as dn
    g = dn.DynDiGraph() if directed else dn.DynGraph()
    for (a, b, t) in sorted(dec, key=lambda k: (k[2], repr(k))):
        if dec[(a, b, t)]:
            g.add_interaction(a, b, t)
    O = LazyG(names, [i for i in ids if any(v for k, v in dec.items() if k[2] == i)], directed, [], fixed=dict(dec))
    return g, O
