"""C08 - accumulative mode: interactions persist from their first add to the last snapshot of the graph."""
import dynetx as dn

from . import build
from .core import Registry, B8, I4
from .models import assume, reach, sbool

REG = Registry("C08")
REG.notes += [
    "bounded histories through the public API on DynGraph/DynDiGraph(edge_removal=False) with M1 maps: k calls over two pairs "
    "(symbolic choice of pair and endpoint order per call), symbolic t, optional symbolic vanishing time (any span 1..2)",
    "calls that raise ValueError are skipped as not accepted (their no-trace property is C07)",
    "reference model: presence of a pair = [first accepted instant of the pair, largest accepted instant of the graph]",
]
FUNCTIONS = ["dynetx/classes/dyngraph.py:DynGraph.add_interaction", "dynetx/classes/dyngraph.py:DynGraph.has_interaction",
             "dynetx/classes/dyngraph.py:DynGraph.stream_interactions", "dynetx/classes/dyngraph.py:DynGraph.temporal_snapshots_ids",
             "dynetx/classes/dyndigraph.py:DynDiGraph.add_interaction"]

for _c in (dn.DynGraph, dn.DynDiGraph):
    _g = _c(edge_removal=False)
    _g.add_interaction(1, 2, 3)
    _g.add_interaction(2, 3, 1, 5)
    _g.neighbors(1, 2), _g.degree(1, 2), _g.degree(t=2), _g.interactions(t=2), _g.nodes(t=2), _g.number_of_interactions(t=2)
    _g.temporal_snapshots_ids(), list(_g.stream_interactions()), _g.has_interaction(1, 2, 4)


def T_hist(t0: int, t1: int, t2: int, t3: int, ls: I4, sel: B8, q: int) -> bool:
    pass


def hist(cfg, t0, t1, t2, t3, ls, sel, q):
    directed, k = cfg["directed"], cfg["k"]
    ts = [t0, t1, t2, t3][:k]
    g = build.new_graph(directed, removal=False)
    A = (1, 2)
    B = (2, 1) if (directed and cfg["recip"]) else (2, 3)
    first = {}
    accepted = []
    for i in range(k):
        l = ls[i]
        assume((0 <= l) & (l <= 2))
        e = None if sbool(l == 0) else ts[i] + l
        pat = cfg["pattern"][i]           # 'A', 'a' (A with swapped endpoints), 'B', 'b'
        pair = B if pat in "Bb" else A
        u, v = pair
        if pat in "ab":
            u, v = v, u
        try:
            g.add_interaction(u, v, ts[i], e)
        except ValueError:
            reach("rejected")
            continue
        accepted.append(ts[i])
        if pair not in first:
            first[pair] = ts[i]
        else:
            reach("re_add")
    if len(first) == 2:
        reach("two_pairs")
    assume(len(accepted) > 0)
    # ids = distinct accepted instants, ascending
    ids = g.temporal_snapshots_ids()
    exp_ids = []
    for x in sorted(accepted):
        if not exp_ids or sbool(exp_ids[-1] != x):
            exp_ids.append(x)
    if len(ids) != len(exp_ids):
        return False
    for x, y in zip(ids, exp_ids):
        if sbool(x != y):
            return False
    last = exp_ids[-1]
    pres = {}
    for pair in (A, B):
        pres[pair] = pair in first and sbool((first[pair] <= q) & (q <= last))
        u, v = pair
        if sbool(g.has_interaction(u, v, q)) != pres[pair]:
            return False
        if not directed and sbool(g.has_interaction(v, u, q)) != pres[pair]:
            return False
        if bool(g.has_interaction(u, v)) != (pair in first):
            return False
    if pres[A]:
        reach("present_at_q")
    if not cfg["obs"]:
        return stream_ok(g, first, directed)
    # snapshot queries follow that presence
    exp_edges = [p for p in (A, B) if pres[p]]
    got = g.interactions(t=q)
    if directed:
        if sorted((x[0], x[1]) for x in got) != sorted(exp_edges):
            return False
    else:
        if sorted(tuple(sorted((x[0], x[1]))) for x in got) != sorted(tuple(sorted(p)) for p in exp_edges):
            return False
    if g.number_of_interactions(t=q) != len(exp_edges):
        return False
    nodes_q = set()
    for p in exp_edges:
        nodes_q.update(p)
    if set(g.nodes(t=q)) != nodes_q:
        return False
    for n in (1, 2, 3):
        if n not in g._node:
            continue
        if directed:
            en = sorted(p[1] for p in exp_edges if p[0] == n)
            deg = len([p for p in exp_edges if p[0] == n]) + len([p for p in exp_edges if p[1] == n])
        else:
            en = sorted([p[1] for p in exp_edges if p[0] == n] + [p[0] for p in exp_edges if p[1] == n])
            deg = len(en)
        if sorted(g.neighbors(n, q)) != en:
            return False
        if g.degree(n, q) != deg:
            return False
        if bool(g.has_node(n, q)) != (n in nodes_q):
            return False
    return stream_ok(g, first, directed)


def stream_ok(g, first, directed):
    # stream: exactly one '+' per pair at its first appearance, no '-'
    st = list(g.stream_interactions())
    if len(st) != len(first):
        return False
    prev = None
    for (u, v, op, t) in st:
        if op != '+':
            return False
        key = (u, v) if (directed or (u, v) in first) else (v, u)
        if key not in first or sbool(first[key] != t):
            return False
        if prev is not None and sbool(prev > t):
            return False
        prev = t
    if len(st) == 2 and (st[0][0], st[0][1]) == (st[1][0], st[1][1]):
        return False
    return True


PATTERNS = {2: ["AA", "Aa", "AB", "Ba"], 3: ["AAA", "AaA", "AAB", "ABA", "ABa", "BAA", "ABB"],
            4: ["AAAA", "AaBA", "ABAB"]}
for directed in (False, True):
    for recip in ((False, True) if directed else (False,)):
        for k in (2, 3, 4):
            for pattern in PATTERNS[k]:
                if directed and pattern != pattern.upper():
                    continue
                if k == 4 and directed and not recip:
                    continue
                for obs in (True, False):
                    if obs and k > 3:
                        continue
                    if not obs and k == 2:
                        continue
                    quick = (k == 2) or (k == 3 and not obs) or (k == 3 and obs and pattern in ("ABA", "AAB"))
                    REG.add("hist_%s%s_%s%s" % ("d" if directed else "u", "_recip" if recip else "", pattern, "_obs" if obs else ""),
                            T_hist, hist, cfg=dict(directed=directed, recip=recip, k=k, pattern=pattern, obs=obs),
                            tier="quick" if quick else "thorough", timeout=900 if quick else 3000,
                            tags=["present_at_q"] + (["re_add"] if len(set(pattern.upper())) < k else []) +
                                 (["two_pairs"] if len(set(pattern.upper())) == 2 else []), twins=1,
                            bounds="%d add_interaction calls on an empty %s(edge_removal=False), pairs per call = %s (A=(1,2), B=%s, lower "
                                   "case = endpoints swapped); each call: unbounded symbolic t, vanishing time absent or t+1..t+2; "
                                   "unbounded query instant q" % (k, "DynDiGraph" if directed else "DynGraph", pattern,
                                                                   "(2,1)" if recip else "(2,3)"),
                            what="snapshot ids = distinct accepted instants (ascending); has_interaction(u,v,q) iff first accepted "
                                 "instant of the pair <= q <= largest snapshot id; stream = one '+' per pair at its first instant, "
                                 "no '-', chronological" + ("; interactions/number_of_interactions/nodes/has_node/neighbors/degree "
                                                            "at q follow that presence" if obs else ""))
