"""Solver-based checking of the real dynetx code (CrossHair + z3). See /verif/DESIGN.md."""
