"""C14 - annotate_paths selects exactly the optimal paths for each criterion."""
from typing import Tuple

import dynetx.algorithms.paths as paths
from .core import Registry
from .models import assume, reach, sbool

REG = Registry("C14")
REG.notes += [
    "inputs: k paths over one node sequence 0->1->2->..., each with a symbolic number of hops (1..maxlen) and unbounded "
    "symbolic integer hop times (annotate_paths reads only length, first and last time); equal paths (duplicates) arise when "
    "all times coincide",
    "hop times inside a path are NOT assumed to increase (annotate_paths does not require it)",
]
FUNCTIONS = ["dynetx/algorithms/paths.py:annotate_paths", "dynetx/algorithms/paths.py:path_length",
             "dynetx/algorithms/paths.py:path_duration"]

I16 = Tuple[int, int, int, int, int, int, int, int, int, int, int, int, int, int, int, int]
paths.annotate_paths([[(0, 1, 1), (1, 2, 3)], [(0, 2, 2)]])


def T_c14(lens: Tuple[int, int, int, int], ts: I16) -> bool:
    pass


def dur(p):
    return p[-1][-1] - p[0][-1]


def body(cfg, lens, ts):
    k, ml = cfg["k"], cfg["maxlen"]
    ps = []
    for i in range(k):
        ln = lens[i]
        assume((1 <= ln) & (ln <= ml))
        n = 1
        while sbool(n < ln):
            n += 1
        ps.append([(j, j + 1, ts[i * 4 + j]) for j in range(n)])
    if len(set(len(p) for p in ps)) > 1:
        reach("different_lengths")
    res = paths.annotate_paths([list(p) for p in ps])
    if sorted(res.keys()) != ["fastest", "fastest_shortest", "foremost", "shortest", "shortest_fastest"]:
        return False
    # definitions
    minlen = min(len(p) for p in ps)
    mind = None
    minr = None
    for p in ps:
        d = dur(p)
        if mind is None or sbool(d < mind):
            mind = d
        r = p[-1][-1]
        if minr is None or sbool(r < minr):
            minr = r
    shortest = [p for p in ps if len(p) == minlen]
    fastest = [p for p in ps if sbool(dur(p) == mind)]
    foremost = [p for p in ps if sbool(p[-1][-1] == minr)]
    if len(fastest) > 1:
        reach("tie_fastest")
    if not eq_list(res["shortest"], shortest) or not eq_list(res["fastest"], fastest) or not eq_list(res["foremost"], foremost):
        return False
    ms = None
    for p in shortest:
        if ms is None or sbool(dur(p) < ms):
            ms = dur(p)
    fs = [p for p in shortest if sbool(dur(p) == ms)]
    ml_ = min(len(p) for p in fastest)
    sf = [p for p in fastest if len(p) == ml_]
    if not eq_set(res["fastest_shortest"], fs) or not eq_set(res["shortest_fastest"], sf):
        return False
    # every returned path is an element of the input
    for key in res:
        for p in res[key]:
            if not any(eq_path(p, x) for x in ps):
                return False
    for p in ps:
        if paths.path_length(p) != len(p) or sbool(paths.path_duration(p) != dur(p)):
            return False
    return True


def eq_path(a, b):
    if len(a) != len(b):
        return False
    for x, y in zip(a, b):
        if x[0] != y[0] or x[1] != y[1] or sbool(x[2] != y[2]):
            return False
    return True


def eq_list(a, b):
    return len(a) == len(b) and all(eq_path(x, y) for x, y in zip(a, b))


def eq_set(a, b):
    """Same set of paths (as values); a must not contain repeats."""
    for i, x in enumerate(a):
        for y in a[:i]:
            if eq_path(x, y):
                return False
        if not any(eq_path(x, y) for y in b):
            return False
    for y in b:
        if not any(eq_path(x, y) for x in a):
            return False
    return True


for k, ml, tier, tmo in ((1, 3, "quick", 120), (2, 3, "quick", 600), (3, 2, "quick", 900), (3, 3, "thorough", 3000),
                         (4, 1, "thorough", 3000), (2, 4, "thorough", 3000)):
    REG.add("annotate_k%d_len%d" % (k, ml), T_c14, body, cfg=dict(k=k, maxlen=ml), tier=tier, timeout=tmo,
            tags=((["different_lengths"] if ml > 1 else []) + ["tie_fastest"] if k > 1 else []), twins=2,
            bounds="%d path(s), each of 1..%d hops (symbolic), unbounded symbolic integer hop times" % (k, ml),
            what="'shortest'/'fastest'/'foremost' equal (as lists, input order) the paths with fewest hops / minimal last-first "
                 "time / earliest arrival; 'fastest_shortest' and 'shortest_fastest' equal (as duplicate-free sets) the minimal-"
                 "duration members of shortest / fewest-hop members of fastest; every returned path is an input element; "
                 "path_length / path_duration are hop count and last-minus-first time")
