"""One worker process = one condition.  Usage:
    python -m dynverif.worker <prop> <cond> analyze <tier>      symbolic execution (+ reachability twins)
    python -m dynverif.worker <prop> <cond> native  <json-file> native run(s) of the harness on concrete arguments
Prints one JSON document on the last line of stdout, prefixed by "RESULT "."""
import ast
import collections
import hashlib
import importlib
import inspect
import json
import os
import re
import sys
import time
import traceback


def _load(prop, cond):
    import dynetx
    repo = os.environ.get("DYNVERIF_REPO", "/repo").rstrip("/")
    assert os.path.realpath(dynetx.__file__).startswith(repo + "/"), dynetx.__file__
    mod = importlib.import_module("dynverif.h_" + prop.lower())
    reg = mod.REG
    return mod, reg, reg.conds[cond]


def parse_call(message, fn):
    """Extract the argument values from CrossHair's 'when calling f(...)' text (literals only)."""
    m = re.search(r"when calling (\w+)\(", message)
    if not m:
        return None
    start = m.end() - 1
    depth = 0
    end = None
    in_str = None
    i = start
    while i < len(message):
        ch = message[i]
        if in_str:
            if ch == "\\":
                i += 1
            elif ch == in_str:
                in_str = None
        elif ch in "'\"":
            in_str = ch
        elif ch in "([{":
            depth += 1
        elif ch in ")]}":
            depth -= 1
            if depth == 0:
                end = i
                break
        i += 1
    if end is None:
        return None
    call = ast.parse("f" + message[start:end + 1], mode="eval").body
    pos = [ast.literal_eval(a) for a in call.args]
    kw = {k.arg: ast.literal_eval(k.value) for k in call.keywords}
    ba = inspect.signature(fn).bind(*pos, **kw)
    return dict(ba.arguments)


def analyze_one(fn, timeout):
    import z3
    from crosshair.core_and_libs import analyze_function
    from crosshair.options import AnalysisOptionSet, AnalysisKind
    zt = {"n": 0, "t": 0.0}
    orig = z3.Solver.check
    if not getattr(z3.Solver.check, "_dv", False):
        def _check(self, *a):
            t0 = time.perf_counter()
            r = orig(self, *a)
            _check.zt["n"] += 1
            _check.zt["t"] += time.perf_counter() - t0
            return r
        _check._dv = True
        _check.zt = zt
        z3.Solver.check = _check
    else:
        z3.Solver.check.zt["n"] = 0
        z3.Solver.check.zt["t"] = 0.0
        zt = z3.Solver.check.zt
    stats = collections.Counter()
    opts = AnalysisOptionSet(per_condition_timeout=timeout, per_path_timeout=max(30.0, timeout ** 0.5),
                             analysis_kind=[AnalysisKind.PEP316], report_all=True,
                             stats=stats, max_uninteresting_iterations=sys.maxsize)
    t0 = time.time()
    status, message = "ERROR", "no checkable found"
    checkables = analyze_function(fn, opts)
    for c in checkables:
        msgs = list(c.analyze())
        for mm in msgs:
            st = mm.state.name
            if st == "CONFIRMED":
                status, message = "CONFIRMED", mm.message
            elif st in ("POST_FAIL", "EXEC_ERR", "POST_ERR", "PRE_INVALID"):
                status, message = "REFUTED", st + ": " + mm.message
            elif st in ("CANNOT_CONFIRM", "PRE_UNSAT"):
                status, message = "UNKNOWN", st + ": " + mm.message
            else:
                status, message = "ERROR", st + ": " + mm.message
            if status == "REFUTED":
                break
    return {"status": status, "message": message, "paths": int(stats.get("num_paths", 0)),
            "confirmed_paths": int(stats.get("num_confirmed_paths", 0)), "z3_calls": zt["n"],
            "z3_time": round(zt["t"], 3), "wall": round(time.time() - t0, 2)}


def canary():
    """A false condition whose failure is reached through a helper must be REFUTED (contract-hygiene guard)."""
    from . import core
    def _tmpl(a: int, b: int) -> bool:
        pass
    def _helper(a, b):
        return not (a == b + 17)
    def _body(cfg, a, b):
        return _helper(a, b)
    fn = core.make("canary", _tmpl, _body)
    r = analyze_one(fn, 30)
    return r["status"] == "REFUTED"


def main():
    prop, cond, mode = sys.argv[1], sys.argv[2], sys.argv[3]
    out = {"cond": cond, "mode": mode}
    try:
        if mode == "analyze":
            tier = sys.argv[4]
            import crosshair.core as _core
            _core.consider_shortcircuit = lambda *a, **k: None
            from . import models, core
            mod, reg, c = _load(prop, cond)
            out["canary"] = canary()
            models.TAGS_DONE.clear()
            r = analyze_one(c.fn, min(c.timeout, float(os.environ.get("DYNVERIF_TMO", "1e9"))))
            out.update(r)
            out["tags_done"] = sorted(models.TAGS_DONE)
            if r["status"] == "REFUTED":
                try:
                    out["args"] = parse_call(r["message"], c.fn)
                except Exception as e:  # unparsable counterexample -> inconclusive, reported by the driver
                    out["args"] = None
                    out["parse_error"] = repr(e)
            # reachability twins
            tw = []
            if r["status"] == "CONFIRMED" and c.finding is None:
                ntw = len(c.tags) if tier == "thorough" else min(c.twins, len(c.tags))
                for tag in c.tags[:ntw]:
                    tr = analyze_one(core.make_twin(c, tag), min(c.timeout, 120))
                    e = {"tag": tag, "status": tr["status"], "paths": tr["paths"], "z3_calls": tr["z3_calls"],
                         "z3_time": tr["z3_time"], "wall": tr["wall"]}
                    if tr["status"] == "REFUTED":
                        try:
                            e["args"] = parse_call(tr["message"], c.fn)
                        except Exception as ex:
                            e["args"] = None
                    tw.append(e)
            out["twins"] = tw
        elif mode == "native":
            assert os.environ.get("DYNVERIF_NATIVE") == "1"
            from . import models
            mod, reg, c = _load(prop, cond)
            jobs = json.load(open(sys.argv[4]))
            res = []
            seen = set()

            def prof(frame, event, arg):
                if event == "call":
                    fnm = frame.f_code.co_filename
                    repo = os.environ.get("DYNVERIF_REPO", "/repo").rstrip("/")
                    if fnm.startswith(repo + "/dynetx/") and "/test/" not in fnm:
                        seen.add(fnm[len(repo) + 1:] + ":" + frame.f_code.co_qualname)
            for job in jobs:
                args = job["args"]
                models.TAGS_PATH.clear()
                e = {"kind": job["kind"], "tag": job.get("tag")}
                try:
                    if job["kind"] == "replay" and c.replay is not None:
                        rep, detail = c.replay(c.cfg, dict(args))
                        e["holds"] = not rep
                        e["detail"] = detail
                    else:
                        sys.setprofile(prof)
                        try:
                            r = c.body(c.cfg, **_detuple(args, c.fn))
                        finally:
                            sys.setprofile(None)
                        e["holds"] = bool(r)
                        e["detail"] = "harness returned %r natively" % (bool(r),)
                    e["tags"] = sorted(models.TAGS_PATH)
                except models.AssumeFailed:
                    e["holds"] = None
                    e["detail"] = "arguments outside the stated bounds (assume failed natively)"
                except Exception as ex:
                    sys.setprofile(None)
                    e["holds"] = False
                    e["detail"] = "exception natively: " + "".join(traceback.format_exception_only(type(ex), ex)).strip()
                    e["trace"] = traceback.format_exc()[-1500:]
                res.append(e)
            out["results"] = res
            out["functions"] = sorted(seen)
        else:
            raise SystemExit("bad mode")
    except BaseException as ex:
        out["status"] = "ERROR"
        out["message"] = "worker crashed: " + "".join(traceback.format_exception_only(type(ex), ex)).strip()
        out["trace"] = traceback.format_exc()[-3000:]
    sys.stdout.flush()
    print("RESULT " + json.dumps(out, default=repr))


def _detuple(args, fn):
    """JSON turns tuples into lists; harness bodies index them only, so lists are fine - but keep ints as ints."""
    sig = inspect.signature(fn)
    out = {}
    for k in sig.parameters:
        v = args[k]
        out[k] = tuple(v) if isinstance(v, list) else v
    return out


if __name__ == "__main__":
    main()
