"""C07 - a rejected update leaves no trace."""
import dynetx as dn
import networkx as nx

from . import build, step
from .core import Registry, B48, I8
from .models import assume, reach, sbool

REG = Registry("C07")
REG.notes += [
    "Layer-1 conditions: the pre-state is arbitrary (not even constrained by the invariant: 'noinv'), lazily materialised; a "
    "rejected call must not read or write the counter / event index at any instant, must not create nodes and must leave "
    "the timeline object and its values untouched => every legal continuation behaves as if the call had not been made",
    "bulk helpers: explicit M1 graphs built through the public API, compared with a twin graph that received only the "
    "elements preceding the failing one; comparison at an arbitrary instant q",
]
FUNCTIONS = ["dynetx/classes/dyngraph.py:DynGraph.add_interaction", "dynetx/classes/dyndigraph.py:DynDiGraph.add_interaction",
             "dynetx/classes/dyngraph.py:DynGraph.add_interactions_from", "dynetx/classes/dyngraph.py:DynGraph.add_path",
             "dynetx/classes/dyngraph.py:DynGraph.add_star", "dynetx/classes/dyngraph.py:DynGraph.add_cycle",
             "dynetx/classes/function.py:add_path", "dynetx/classes/function.py:add_star", "dynetx/classes/function.py:add_cycle"]

for removal in (True, False):
    step.register_matrix(
        REG, "trace", "trace_%s" % ("rm" if removal else "acc"),
        "a call with t < start of the pair's latest run raises ValueError and leaves nodes, adjacency, the timeline object, and "
        "the counter / event index at EVERY instant exactly as they were (nothing is even looked up)",
        quick=lambda key, n, L, by: True,
        split=lambda key, n, L, by: False,
        tags=lambda n: ["rejected"], ns=(1, 2, 3), Ls=(4,),
        extra_cfg={"noinv": True, "only_reject": True, "removal": removal},
        bounds_extra="; only rejected calls are explored (t < start of latest run); edge_removal=%s" % removal)


# ---- missing t -------------------------------------------------------------------------------------------------------
def T_none(a: int, b: int, e: int, q: int, pb: B48, pi: I8) -> bool:
    pass


def none_body(cfg, a, b, e, q, pb, pi):
    c2 = {"directed": cfg["directed"], "pat": cfg["pat"], "by": False, "n": cfg["n"], "noinv": True,
          "removal": cfg["removal"], "iso": False}
    S = step.setup(c2, a, b, 0, 0, 0, 0, 0, 0, pb, pi)
    g = S["g"]
    nodes_before = set(g._node)
    ee = e if cfg["with_e"] else None
    try:
        if cfg["form"] == "one":
            g.add_interaction(S["u"], S["v"], None, ee)
        elif cfg["form"] == "from":
            g.add_interactions_from([(S["u"], S["v"]), (5, 6)], None, ee)
        elif cfg["form"] == "path":
            g.add_path([S["u"], S["v"], 5], None)
        elif cfg["form"] == "dnpath":
            dn.add_path(g, [S["u"], S["v"], 5], None)
        elif cfg["form"] == "dnstar":
            dn.add_star(g, [S["u"], S["v"], 5], None)
        elif cfg["form"] == "dncycle":
            dn.add_cycle(g, [S["u"], S["v"], 5], None)
        return False
    except nx.NetworkXError:
        reach("networkx_error")
    return step.unchanged(S, None, None, None, None, None, nodes_before)


def none_replay(cfg, args):
    """Public-API replay of a none_* counterexample (native, real dicts)."""
    from . import oracle
    directed, pat, n = cfg["directed"], cfg["pat"], cfg["n"]
    g = dn.DynDiGraph(edge_removal=cfg["removal"]) if directed else dn.DynGraph(edge_removal=cfg["removal"])
    u, v = (1, 1) if pat == "loop" else (1, 2)
    hist = []
    if n:
        g.add_interaction(u, v, args["a"], e=args["b"] + 1)
        hist.append("add_interaction(%r,%r,%r,e=%r)" % (u, v, args["a"], args["b"] + 1))
    before = oracle.state_of(g)
    ee = args["e"] if cfg["with_e"] else None
    form = cfg["form"]
    call = {"one": "add_interaction(%r,%r,None,%r)" % (u, v, ee),
            "from": "add_interactions_from([(%r,%r),(5,6)],None,%r)" % (u, v, ee)}.get(form, "%s([%r,%r,5], None)" % (form, u, v))
    try:
        if form == "one":
            g.add_interaction(u, v, None, ee)
        elif form == "from":
            g.add_interactions_from([(u, v), (5, 6)], None, ee)
        elif form == "path":
            g.add_path([u, v, 5], None)
        elif form == "dnpath":
            dn.add_path(g, [u, v, 5], None)
        elif form == "dnstar":
            dn.add_star(g, [u, v, 5], None)
        elif form == "dncycle":
            dn.add_cycle(g, [u, v, 5], None)
        return True, "%s; %s did not raise" % ("; ".join(hist), call)
    except nx.NetworkXError:
        pass
    except Exception as ex:
        return True, "%s; %s raised %r instead of NetworkXError" % ("; ".join(hist), call, ex)
    after = oracle.state_of(g)
    if after != before:
        return True, "%s; %s raised NetworkXError but changed %s" % ("; ".join(hist), call,
                                                                    [k for k in before if before[k] != after[k]])
    return False, "state unchanged through the public API"


for directed in (False, True):
    for pat in ("same", "loop"):
        for n in (0, 1):
            for form in ("one", "from", "path", "dnpath", "dnstar", "dncycle"):
                for with_e in ((False, True) if form in ("one", "from") else (False,)):
                    for removal in ((True, False) if form == "one" else (True,)):
                        REG.add("none_%s_%s_n%d_%s%s%s" % ("d" if directed else "u", pat, n, form, "_e" if with_e else "",
                                                          "" if removal else "_acc"),
                                T_none, none_body,
                                cfg=dict(directed=directed, pat=pat, n=n, form=form, with_e=with_e, removal=removal),
                                tier="quick" if (form in ("one", "from", "path", "dnstar") and pat == "same") else "thorough",
                                timeout=120, tags=["networkx_error"], twins=1, replay=none_replay,
                                bounds="arbitrary state (n=%d symbolic run of the pair), call form %s without t%s" %
                                       (n, form, ", symbolic e" if with_e else ""),
                                what="a call without t raises NetworkXError and leaves every part of the state untouched "
                                     "(no node created, no instant looked up)")


# ---- bulk helpers: state after a failure == state after the preceding elements ----------------------------------------
def T_bulk(a: int, la: int, c: int, lc: int, t: int, l: int, q: int) -> bool:
    pass


def bulk_body(cfg, a, la, c, lc, t, l, q):
    directed, form, removal = cfg["directed"], cfg["form"], cfg["removal"]
    assume((la == cfg["la"]) & (lc == cfg["lc"]) & (0 <= l) & (l <= cfg["L"]))
    e = None if l == 0 else t + l

    def mk():
        g = build.new_graph(directed, removal)
        build.put_pair(g, 1, 2, [[a, a + cfg["la"]]])
        build.put_pair(g, 2, 3, [[c, c + cfg["lc"]]])
        return g
    g, h = mk(), mk()
    nodes = cfg["nodes"]
    if form in ("path", "dnpath"):
        elems = list(zip(nodes[:-1], nodes[1:]))
    elif form in ("star", "dnstar"):
        elems = [(nodes[0], x) for x in nodes[1:]]
    elif form in ("cycle", "dncycle"):
        elems = list(zip(nodes, nodes[1:] + [nodes[0]]))
    else:
        elems = [tuple(x) for x in cfg["elems"]]
    failed = None
    try:
        if form == "from":
            g.add_interactions_from(elems, t, e)
        elif form == "path":
            g.add_path(nodes, t)
        elif form == "star":
            g.add_star(nodes, t)
        elif form == "cycle":
            g.add_cycle(nodes, t)
        elif form == "dnpath":
            dn.add_path(g, nodes, t)
        elif form == "dnstar":
            dn.add_star(g, nodes, t)
        elif form == "dncycle":
            dn.add_cycle(g, nodes, t)
    except ValueError as ex:
        failed = ex
        reach("bulk_failed")
    if form != "from":
        e = None
    # reference: explicit calls, stop at the first rejected one
    ref_failed = False
    for (x, y) in elems:
        try:
            h.add_interaction(x, y, t, e)
        except ValueError:
            ref_failed = True
            break
    if ref_failed != (failed is not None):
        return False
    if not ref_failed:
        reach("bulk_ok")
    if not build.inv1_all(g):
        return False                       # canonical timelines, no run object shared between two pairs
    return build.same_state_at(g, h, q)


_BULK = [("from", None, [(0, 1), (1, 2), (2, 9)]), ("from", None, [(2, 1), (4, 4), (3, 2), (1, 2)]),
         ("path", [0, 1, 2, 9], None), ("star", [2, 0, 1, 9], None), ("cycle", [0, 1, 2, 9], None),
         ("dnpath", [9, 3, 2, 1, 0], None), ("dnstar", [2, 3, 1, 9], None), ("dncycle", [0, 1, 2, 3], None)]
for directed in (False, True):
    for removal in (True, False):
        for i, (form, nodes, elems) in enumerate(_BULK):
            if directed and form in ("star", "cycle"):
                continue          # DynDiGraph has no add_star / add_cycle methods (only the dn.* forms)
            quick = removal and form in ("from", "path", "star", "dncycle") and i != 1
            REG.add("bulk_%s_%s%d%s" % ("d" if directed else "u", form, i, "" if removal else "_acc"), T_bulk, bulk_body,
                    cfg=dict(directed=directed, removal=removal, form=form, nodes=nodes, elems=elems, L=1 if quick else 2,
                             la=1, lc=0),
                    tier="quick" if quick else "thorough", timeout=900,
                    # directed dnpath walks 9->3->2->1->0: none of its elements is one of the stored pairs 1->2, 2->3
                    tags=(["bulk_ok"] if (directed and form == "dnpath") else ["bulk_failed", "bulk_ok"]), twins=1,
                    bounds="graph with pairs (1,2) (run of 2 instants) and (2,3) (run of 1 instant), symbolic starts, constructed "
                           "directly under the invariant (M3); bulk call %s on %s with symbolic t%s; comparison at an arbitrary instant q" %
                           (form, nodes or elems, " and optional symbolic e (span <= 2)" if form == "from" else ""),
                    what="the bulk helper fails iff one of its elements is rejected, and then the state equals the state after "
                         "the explicit add_interaction calls for the elements that preceded the failing one (else: after all)")
