"""C02 - every snapshot and flattened query projects the one presence relation."""
import dynetx as dn

from . import build, inv, models
from .core import Registry, I8
from .models import assume, reach, sbool

REG = Registry("C02")
REG.notes += [
    "M3: graphs constructed directly under the invariant: nodes 1,2,3 (+ isolated node 9 with attributes), a concrete set of "
    "pairs per condition (topology family), each pair with 1-2 symbolic runs of unbounded length, unbounded query instant q",
    "oracle conventions (DESIGN 5/C02): degree = incident interactions, self-loop once on DynGraph and in+out on DynDiGraph; "
    "size/number_of_interactions = number of distinct interactions; nodes(t)/has_node/number_of_nodes(t) = nodes with an "
    "incident interaction at t; all_neighbors(directed) = predecessors then successors; non_* = complement within the "
    "all-time node set; interactions(nbunch) = interactions incident to (directed: leaving) a listed node",
    "known findings carved out: F-C02-size-selfloop (DynGraph.size halves self-loops), F-C02-density-t (dn.density(G,t) is "
    "always 0), F-C02-flat-reciprocal (DynDiGraph.interactions() without t lists a reciprocal pair once)",
]
FUNCTIONS = ["dynetx/classes/dyngraph.py:DynGraph.*(observers)", "dynetx/classes/dyndigraph.py:DynDiGraph.*(observers)",
             "dynetx/classes/function.py:*"]


def _warm():
    for c in (dn.DynGraph, dn.DynDiGraph):
        for rm in (True, False):
            g = c(edge_removal=rm)
            g.add_node(9, k=1)
            g.add_interaction(1, 2, 0, 4)
            g.add_interaction(2, 3, 2, 6)
            g.add_interaction(1, 1, 3)
            for t in (None, 3):
                g.interactions(t=t), g.interactions([1, 77], t=t), list(g.interactions_iter(t=t))
                g.neighbors(1, t), list(g.neighbors_iter(1, t)), g.degree(t=t), g.degree(1, t), g.degree([1, 77], t)
                list(g.degree_iter(t=t)), g.nodes(t), g.nodes(t, True), g.has_node(1, t), g.number_of_nodes(t), g.size(t)
                g.number_of_interactions(t=t), g.number_of_interactions(1, 2, t)
                dn.nodes(g, t), dn.interactions(g, t=t), dn.degree(g, None, t), dn.neighbors(g, 1, t)
                list(dn.all_neighbors(g, 1, t)), list(dn.non_neighbors(g, 1, t)), list(dn.non_interactions(g, t))
                dn.number_of_nodes(g, t), dn.number_of_interactions(g, t=t), dn.density(g, t), dn.degree_histogram(g, t)
                if c is dn.DynDiGraph:
                    g.in_interactions(t=t), g.out_interactions(t=t), g.successors(1, t), g.predecessors(1, t)
                    g.in_degree(t=t), g.out_degree(t=t), g.in_degree(1, t), g.out_degree([1], t), g.has_successor(1, 2, t)
                    list(g.in_interactions_iter([2], t)), list(g.out_interactions_iter([2], t)), g.has_predecessor(2, 1, t)
                    list(g.successors_iter(1, t)), list(g.predecessors_iter(1, t)), list(g.in_degree_iter(t=t)), list(g.out_degree_iter(t=t))
                else:
                    g.order(t)
            dn.is_empty(g), g.get_node_snapshots(1)


_warm()

FAMILIES = {
    # name: (directed, [(u, v, number of runs)])
    "u_one": (False, [(1, 2, 2)]),
    "u_path": (False, [(1, 2, 1), (3, 2, 1)]),
    "u_tri": (False, [(1, 2, 1), (2, 3, 1), (3, 1, 1)]),
    "u_loop": (False, [(1, 1, 1), (1, 2, 1)]),
    "u_none": (False, []),
    "d_one": (True, [(1, 2, 2)]),
    "d_recip": (True, [(1, 2, 1), (2, 1, 1)]),
    "d_path": (True, [(1, 2, 1), (2, 3, 1)]),
    "d_loop": (True, [(1, 1, 1), (2, 1, 1)]),
    "d_mixed": (True, [(1, 2, 1), (2, 1, 1), (2, 3, 1)]),
    "d_none": (True, []),
}
NODES = [1, 2, 3, 9]


def T_obs(ts: I8, q: int) -> bool:
    pass


def norm(e, directed):
    return (e[0], e[1]) if directed else tuple(sorted((e[0], e[1])))


def body(cfg, ts, q):
    directed, spec = FAMILIES[cfg["family"]]
    removal = cfg.get("removal", True)
    g = build.new_graph(directed, removal)
    for n in (1, 2, 3):
        build.add_node_raw(g, n, {"label": n})
    build.add_node_raw(g, 9, {"color": "red"})
    vals = list(ts)
    pairs = []
    for (u, v, n) in spec:
        tl = []
        for _ in range(n):
            tl.append([vals.pop(0), vals.pop(0)])
        assume(inv.canonical_nf(tl))
        if not removal:
            assume(tl[0][1] - tl[0][0] <= 1)
        build.put_pair(g, u, v, tl, index=not removal)
        pairs.append((u, v, tl))
    if removal:
        g.snapshots = build.DerivedSnapshots(g)      # a faithful (Inv2) counter for runs of any length
        P = [(u, v) for (u, v, tl) in pairs if sbool(inv.present_at(tl, q))]
    else:
        ids = g.temporal_snapshots_ids()
        last = ids[-1] if ids else None
        P = [(u, v) for (u, v, tl) in pairs if last is not None and sbool((tl[0][0] <= q) & (q <= last))]
    if len(P) == len(pairs) and pairs:
        reach("all_present")
    if len(P) == 0 and pairs:
        reach("none_present")
    if 0 < len(P) < len(pairs):
        reach("some_present")
    ALL = [(u, v) for (u, v, tl) in pairs]
    sel = cfg["observers"]
    for t, E in ((q, P), (None, ALL)):
        if not check(g, directed, t, E, sel, cfg):
            return False
    return True


def incident(E, n, directed):
    """neighbours of n in the static graph E (undirected: both orders, self-loop once)."""
    out = []
    for (u, v) in E:
        if u == n:
            out.append(v)
        elif v == n and not directed:
            out.append(u)
    return out


def check(g, directed, t, E, sel, cfg):
    En = sorted(norm(e, directed) for e in E)
    succ = {n: sorted(incident(E, n, directed)) for n in NODES}
    pred = {n: sorted(u for (u, v) in E if v == n) for n in NODES}
    deg = {n: (len(succ[n]) + len(pred[n])) if directed else len(succ[n]) for n in NODES}
    present_nodes = sorted(n for n in NODES if deg[n] > 0) if t is not None else list(NODES)
    flat = t is None
    selfloops = [e for e in E if e[0] == e[1]]
    # F-C02-flat-reciprocal: the flattened directed view omits u->v when v was iterated (as a source) before u
    recip_flat = flat and directed and any(NODES.index(v) < NODES.index(u) for (u, v) in E)

    if "interactions" in sel:
        if not recip_flat or cfg.get("check_flat_reciprocal"):
            for got in (g.interactions(t=t), list(g.interactions_iter(t=t)), dn.interactions(g, t=t)):
                if sorted(norm(e, directed) for e in got) != En:
                    return False
                for e in got:
                    if flat:
                        if 't' not in e[2]:
                            return False
                    elif e[2] != {"t": [t]}:
                        return False
        # nbunch: interactions incident to (directed: leaving) a listed node; unknown nodes are ignored
        for nb in ([1], [2, 77], [3, 9], [77]):
            if directed:
                exp = sorted((u, v) for (u, v) in E if u in nb)
            else:
                exp = sorted(norm(e, False) for e in E if e[0] in nb or e[1] in nb)
            if recip_flat and not cfg.get("check_flat_reciprocal"):
                continue
            got = g.interactions(nb, t=t)
            if sorted(norm(e, directed) for e in got) != exp:
                return False
        if directed:
            for nb in (None, [2], [1, 77]):
                exp_out = sorted((u, v) for (u, v) in E if nb is None or u in nb)
                exp_in = sorted((u, v) for (u, v) in E if nb is None or v in nb)
                for got, exp in ((g.out_interactions(nb, t), exp_out), (list(g.out_interactions_iter(nb, t)), exp_out),
                                 (g.in_interactions(nb, t), exp_in), (list(g.in_interactions_iter(nb, t)), exp_in)):
                    if sorted((e[0], e[1]) for e in got) != exp:
                        return False
    if "neighbors" in sel:
        for n in NODES:
            if sorted(g.neighbors(n, t)) != succ[n] or sorted(g.neighbors_iter(n, t)) != succ[n]:
                return False
            if sorted(dn.neighbors(g, n, t)) != succ[n]:
                return False
            if directed:
                if sorted(g.successors(n, t)) != succ[n] or sorted(g.successors_iter(n, t)) != succ[n]:
                    return False
                if sorted(g.predecessors(n, t)) != pred[n] or sorted(g.predecessors_iter(n, t)) != pred[n]:
                    return False
                if sorted(dn.all_neighbors(g, n, t)) != sorted(pred[n] + succ[n]):     # a reciprocal neighbour twice
                    return False
                alln = set(succ[n]) | set(pred[n])
            else:
                if sorted(dn.all_neighbors(g, n, t)) != succ[n]:
                    return False
                alln = set(succ[n])
            if sorted(dn.non_neighbors(g, n, t)) != sorted(x for x in NODES if x not in alln and x != n):
                return False
            for m in NODES:
                exp = (n, m) in E or (not directed and (m, n) in E)
                if bool(g.has_interaction(n, m, t)) != exp:
                    return False
                if g.number_of_interactions(n, m, t) != (1 if exp else 0):
                    return False
                if directed and (bool(g.has_successor(n, m, t)) != exp or bool(g.has_predecessor(m, n, t)) != exp):
                    return False
        if g.has_interaction(1, 77, t) or g.has_interaction(77, 1, t):
            return False
    if "degree" in sel:
        if g.degree(t=t) != deg or dict(g.degree_iter(t=t)) != deg or dn.degree(g, None, t) != deg:
            return False
        for n in NODES:
            if g.degree(n, t) != deg[n] or dn.degree(g, n, t) != deg[n]:
                return False
        if g.degree([1, 77, 9], t) != {1: deg[1], 9: deg[9]} or dict(g.degree_iter([2], t)) != {2: deg[2]}:
            return False
        if directed:
            ind = {n: len(pred[n]) for n in NODES}
            outd = {n: len(succ[n]) for n in NODES}
            if g.in_degree(t=t) != ind or g.out_degree(t=t) != outd:
                return False
            if dict(g.in_degree_iter(t=t)) != ind or dict(g.out_degree_iter(t=t)) != outd:
                return False
            for n in NODES:
                if g.in_degree(n, t) != ind[n] or g.out_degree(n, t) != outd[n]:
                    return False
            if g.in_degree([2, 77], t) != {2: ind[2]} or g.out_degree([1, 9], t) != {1: outd[1], 9: outd[9]}:
                return False
        mx = max(deg.values())
        if dn.degree_histogram(g, t) != [sum(1 for n in NODES if deg[n] == i) for i in range(mx + 1)]:
            return False
    if "nodes" in sel:
        if sorted(g.nodes(t)) != present_nodes or sorted(dn.nodes(g, t)) != present_nodes:
            return False
        if sorted(g.nodes_iter(t)) != present_nodes:
            return False
        data = g.nodes(t, data=True)
        if sorted(n for n, d in data) != present_nodes:
            return False
        for n, d in data:
            if d is not g._node[n]:
                return False
        for n in NODES:
            if bool(g.has_node(n, t)) != (n in present_nodes):
                return False
        if g.has_node(77, t):
            return False
        if g.number_of_nodes(t) != len(present_nodes) or dn.number_of_nodes(g, t) != len(present_nodes):
            return False
        if not directed and g.order(t) != len(present_nodes):
            return False
        if flat and dn.is_empty(g) != (len(E) == 0):
            return False
    if "size" in sel:
        if (directed or not selfloops) or cfg.get("check_size_selfloop"):
            m = len(E)
            if g.size(t) != m or g.number_of_interactions(t=t) != m or dn.number_of_interactions(g, t=t) != m:
                return False
            if g.number_of_interactions(1, None, t) is not None:
                return False
            if flat or cfg.get("check_density_t"):
                n = len(present_nodes)
                d = dn.density(g, t) if not flat else dn.density(g)
                if m == 0 or n <= 1:
                    if d != 0:
                        return False
                elif d * (n * (n - 1)) != (m if directed else 2 * m):
                    return False
    if "non_interactions" in sel:
        got = list(dn.non_interactions(g, t))
        if directed:
            for (u, v) in got:
                if (u, v) in E or u == v:
                    return False
        else:
            exp = sorted(tuple(sorted((a, b))) for i, a in enumerate(NODES) for b in NODES[i + 1:]
                         if (a, b) not in E and (b, a) not in E)
            if sorted(tuple(sorted(e)) for e in got) != exp:
                return False
    return True


ALLOBS = ["interactions", "neighbors", "degree", "nodes", "size", "non_interactions"]
for fam in FAMILIES:
    directed, spec = FAMILIES[fam]
    REG.add("obs_%s" % fam, T_obs, body, cfg=dict(family=fam, observers=ALLOBS),
            tier="quick", timeout=900, tags=(["all_present", "none_present"] + (["some_present"] if len(spec) > 1 else [])) if spec else [],
            twins=1,
            bounds="%s with nodes 1,2,3,9(isolated) and interactions %s (each the given number of symbolic canonical runs of any "
                   "length); unbounded q" % ("DynDiGraph" if directed else "DynGraph", spec),
            what="at q and with t omitted, every query entry point (interactions/in_/out_ (+_iter, nbunch), neighbors/successors/"
                 "predecessors (+_iter), all_neighbors, non_neighbors, has_interaction/has_successor/has_predecessor, "
                 "number_of_interactions (4 forms), degree/in_/out_ (+_iter, node, nbunch, dict), degree_histogram, nodes (+data), "
                 "has_node, number_of_nodes, order, size, density(t omitted), is_empty, non_interactions, dn.* forms) returns "
                 "exactly what the static graph {(u,v): present at t} gives")
for fam in ("u_path", "u_loop", "d_recip", "d_path"):
    directed, spec = FAMILIES[fam]
    REG.add("obs_acc_%s" % fam, T_obs, body, cfg=dict(family=fam, observers=ALLOBS, removal=False),
            tier="quick" if fam in ("u_path", "d_recip") else "thorough", timeout=900, tags=["all_present", "none_present"], twins=1,
            bounds="edge_removal=False: %s, interactions %s with explicit snapshot ids; presence = [first start, largest id]"
                   % ("DynDiGraph" if directed else "DynGraph", spec),
            what="as obs_*, in accumulative mode")
REG.add("finding_size_selfloop", T_obs, body, cfg=dict(family="u_loop", observers=["size"], check_size_selfloop=True),
        tier="quick", timeout=300, finding="F-C02-size-selfloop", bounds="DynGraph with a self-loop (1,1) and the pair (1,2)",
        what="(expected to fail) size / number_of_interactions count a self-loop as one interaction")
REG.add("finding_density_t", T_obs, body, cfg=dict(family="u_one", observers=["size"], check_density_t=True),
        tier="quick", timeout=300, finding="F-C02-density-t", bounds="DynGraph with one pair",
        what="(expected to fail) dn.density(G, t) is m/(n(n-1)) (doubled when undirected) of the snapshot at t")
REG.add("finding_flat_reciprocal", T_obs, body, cfg=dict(family="d_recip", observers=["interactions"], check_flat_reciprocal=True),
        tier="quick", timeout=300, finding="F-C02-flat-reciprocal", bounds="DynDiGraph with the reciprocal pair 1->2, 2->1",
        what="(expected to fail) DynDiGraph.interactions() without t lists both directions of a reciprocal pair")


# ---- get_node_snapshots (needs an explicit snapshot counter: concrete run lengths) ------------------------------------
def T_gns(a: int, c: int) -> bool:
    pass


def gns_body(cfg, a, c):
    directed = cfg["directed"]
    g = build.new_graph(directed)
    la, lc = cfg["lens"]
    build.put_pair(g, 1, 2, [[a, a + la]])
    build.put_pair(g, 2, 3, [[c, c + lc]])
    build.add_node_raw(g, 9)
    ids = g.temporal_snapshots_ids()
    for n, tls in ((1, [[a, a + la]]), (2, [[a, a + la], [c, c + lc]]), (3, [[c, c + lc]]), (9, [])):
        exp = [k for k in ids if sbool(inv.present_at(tls, k))]
        got = g.get_node_snapshots(n)
        if not isinstance(got, list) or len(got) != len(exp):
            return False
        for x, y in zip(got, exp):
            if sbool(x != y):
                return False
    if len(ids) < la + lc + 2:
        reach("shared_instant")
    return True


for directed in (False, True):
    for lens in ((1, 0), (2, 1)):
        REG.add("node_snapshots_%s_%d%d" % ("d" if directed else "u", lens[0], lens[1]), T_gns, gns_body,
                cfg=dict(directed=directed, lens=lens), tier="quick" if lens == (1, 0) else "thorough", timeout=600,
                tags=["shared_instant"], twins=1,
                bounds="pairs (1,2) and (2,3) with one run of %d and %d instants, symbolic starts, isolated node 9" % (lens[0] + 1, lens[1] + 1),
                what="get_node_snapshots(n) is the ascending list of snapshot ids at which n has an incident interaction")
