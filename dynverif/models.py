"""Modelling devices M1-M5 of DESIGN.md.  Nothing in this module carries a contract (contract hygiene)."""
import collections.abc
import os
import sys

NATIVE = os.environ.get("DYNVERIF_NATIVE") == "1"

try:
    from crosshair.util import IgnoreAttempt
    from crosshair.tracers import NoTracing, is_tracing
    from crosshair.util import CrossHairValue
except Exception:  # pragma: no cover
    class IgnoreAttempt(BaseException):
        pass


class AssumeFailed(Exception):
    """Raised by assume() when a harness is run natively on arguments outside its stated bounds."""


def assume(cond):
    """Harness precondition: prune the path (symbolic) / reject the arguments (native)."""
    if not cond:
        if NATIVE:
            raise AssumeFailed()
        raise IgnoreAttempt("assume")


# ----------------------------------------------------------------------------------------------------------
# reach tags (vacuity guard).  TAGS_PATH collects the tags of the current path; the condition wrapper merges
# them into TAGS_DONE when the path completes normally.
TAGS_PATH = set()
TAGS_DONE = set()


def reach(tag):
    TAGS_PATH.add(tag)


# ----------------------------------------------------------------------------------------------------------
# M1: association list keyed by (possibly symbolic) ints, insertion ordered like dict.
class SymIntMap(collections.abc.MutableMapping):
    def __init__(self, default_factory=None, items=()):
        self._k = []
        self._v = []
        self._df = default_factory
        for k, v in items:
            self._k.append(k)
            self._v.append(v)

    def _idx(self, k):
        i = 0
        for kk in self._k:
            if kk == k:
                return i
            i += 1
        return -1

    def __contains__(self, k):
        return self._idx(k) >= 0

    def __getitem__(self, k):
        i = self._idx(k)
        if i < 0:
            if self._df is not None:
                v = self._df()
                self._k.append(k)
                self._v.append(v)
                return v
            raise KeyError(k)
        return self._v[i]

    def get(self, k, default=None):
        i = self._idx(k)
        return default if i < 0 else self._v[i]

    def __setitem__(self, k, v):
        i = self._idx(k)
        if i < 0:
            self._k.append(k)
            self._v.append(v)
        else:
            self._v[i] = v

    def __delitem__(self, k):
        i = self._idx(k)
        if i < 0:
            raise KeyError(k)
        del self._k[i]
        del self._v[i]

    def __iter__(self):
        return iter(list(self._k))

    def __len__(self):
        return len(self._k)

    def __reversed__(self):
        return iter(list(reversed(self._k)))

    def clear(self):
        self._k = []
        self._v = []

    def copy(self):
        return SymIntMap(self._df, zip(list(self._k), list(self._v)))

    def __repr__(self):
        return "SymIntMap(%r)" % (list(zip(self._k, self._v)),)


def new_snapshots():
    return {} if NATIVE else SymIntMap()


def new_events():
    return collections.defaultdict(int) if NATIVE else SymIntMap(default_factory=int)


_INSTALLED = False


def install():
    """Wrap DynGraph/DynDiGraph.__init__ so every graph (also those the library creates itself) gets M1 maps."""
    global _INSTALLED
    if _INSTALLED or NATIVE:
        return
    import dynetx as dn
    for cls in (dn.DynGraph, dn.DynDiGraph):
        def mk(orig):
            def __init__(self, *a, **k):
                orig(self, *a, **k)
                self.snapshots = new_snapshots()
                self.time_to_edge = new_events()
            __init__.__doc__ = None
            return __init__
        cls.__init__ = mk(cls.__init__)
    _INSTALLED = True


# ----------------------------------------------------------------------------------------------------------
# M2: lazily initialised arbitrary pre-state
class Inner:
    """Inner event dict {(u,v,op): None} with symbolic membership bits.  Keys are concrete tuples; kept as a plain
    association list (CrossHair's patched dict() would build a symbolic-key map, 10x slower)."""

    def __init__(self, bits):
        self.k = []
        self.v = []
        for key in bits:
            self.k.append(key)
            self.v.append(bits[key])

    def _i(self, ev):
        i = 0
        for key in self.k:
            if key[2] == ev[2] and key[0] == ev[0] and key[1] == ev[1]:
                return i
            i += 1
        return -1

    def bit(self, ev):
        i = self._i(ev)
        return False if i < 0 else self.v[i]

    def bits(self):
        return list(zip(self.k, self.v))

    def __contains__(self, ev):
        return self.bit(ev)

    def __setitem__(self, ev, v):
        i = self._i(ev)
        if i < 0:
            self.k.append(ev)
            self.v.append(True)
        else:
            self.v[i] = True

    def __getitem__(self, ev):
        if not self.bit(ev):
            raise KeyError(ev)
        return None

    def __delitem__(self, ev):
        i = self._i(ev)
        if i < 0 or not self.v[i]:
            raise KeyError(ev)
        self.v[i] = False

    def __iter__(self):
        raise RuntimeError("lazy pre-state cannot be enumerated")

    def __len__(self):
        raise RuntimeError("lazy pre-state cannot be enumerated")


class LazyPreMap(collections.abc.MutableMapping):
    """Map whose content at a key is invented (from pooled fresh symbols, under the pointwise invariant) the first
    time the key is touched.  pre(k) -> (present, value)."""

    def __init__(self, pre, default=None):
        self.ent = []
        self.pre = pre
        self.default = default

    def _find(self, k):
        for e in self.ent:
            if e[0] == k:
                return e
        present, value = self.pre(k)
        # e[3], e[4]: the content as first materialised (for "unchanged" checks)
        e = [k, present, value, present, value.bits() if isinstance(value, Inner) else value]
        self.ent.append(e)
        return e

    def __contains__(self, k):
        return self._find(k)[1]

    def __getitem__(self, k):
        e = self._find(k)
        if not e[1]:
            if self.default is not None:
                e[1] = True
                e[2] = self.default()
                return e[2]
            raise KeyError(k)
        return e[2]

    def __setitem__(self, k, v):
        if isinstance(v, dict):
            v = Inner({ev: True for ev in list(v)})
        e = self._find(k)
        e[1] = True
        e[2] = v

    def __delitem__(self, k):
        e = self._find(k)
        if not e[1]:
            raise KeyError(k)
        e[1] = False
        e[2] = None

    def __iter__(self):
        raise RuntimeError("lazy pre-state cannot be enumerated")

    def __len__(self):
        raise RuntimeError("lazy pre-state cannot be enumerated")


class Sentinel:
    """Frame-condition sentinel: any read, write or comparison raises."""
    def _boom(self, *a, **k):
        raise AssertionError("frame violation: add_interaction touched a run before the latest one")
    __getitem__ = __setitem__ = __iter__ = __len__ = __eq__ = __lt__ = __le__ = __gt__ = __ge__ = _boom
    __hash__ = None


# ----------------------------------------------------------------------------------------------------------
# M4: decimal rendering stub.  tok(symbolic int) -> fresh concrete token; untok(token) -> the symbolic int.
_TOK = []


def tok_reset():
    del _TOK[:]


def _is_symbolic(x):
    if NATIVE:
        return False
    with NoTracing():
        return isinstance(x, CrossHairValue)


def tok(x):
    if NATIVE or not _is_symbolic(x):
        return str(x)
    i = 0
    for y in _TOK:
        if y is x:
            return "@%d" % i
        i += 1
    _TOK.append(x)
    return "@%d" % (len(_TOK) - 1)


def untok(s):
    if isinstance(s, str) and s.startswith("@"):
        return _TOK[int(s[1:])]
    return int(s)


# ----------------------------------------------------------------------------------------------------------
# M5: stubs
def stub_environment():
    import gzip
    import time as _time

    class _Clock:
        @staticmethod
        def time():
            return 0.0
    gzip.time = _Clock
    try:
        import dynetx.algorithms.paths as paths
        import dynetx.algorithms.assortativity as asso

        class _Tq:
            @staticmethod
            def tqdm(it, **k):
                return it
        paths.tqdm = _Tq
        asso.tqdm = lambda it, **k: it
    except Exception:
        pass


# helpers shared by harnesses ------------------------------------------------------------------------------
def sbool(x):
    """Force a (symbolic) truth value to a Python bool at a point where forking is intended."""
    return True if x else False


def untraced(fn, *a, **k):
    """Run a purely concrete computation outside CrossHair's tracer (speed only)."""
    if NATIVE:
        return fn(*a, **k)
    with NoTracing():
        return fn(*a, **k)
