"""Concrete (native) oracles used for replays and witness runs: they inspect a real graph through its public API
(plus the two index attributes) and report every departure from the representation invariant.  Contract-free."""
import networkx as nx


def pairs_of(G):
    """(u, v, timeline) for every interaction, once; orientation kept on directed graphs."""
    if G.is_directed():
        return [(u, v, d['t']) for u, v, d in G.out_interactions()]
    out = []
    seen = set()
    for u in G._adj:
        for v in G._adj[u]:
            if (v, u) in seen:
                continue
            seen.add((u, v))
            out.append((u, v, G._adj[u][v]['t']))
    return out


def present(tl, q):
    return any(a <= q <= b for a, b in tl)


def instants_of(G, extra=()):
    ks = set(extra)
    for u, v, tl in pairs_of(G):
        for a, b in tl:
            if b - a > 200:
                ks.update((a - 1, a, a + 1, b - 1, b, b + 1, b + 2))
            else:
                ks.update(range(a - 1, b + 3))
    ks.update(G.snapshots.keys())
    ks.update(G.time_to_edge.keys())
    return sorted(ks)


def wellformed(G, strong_closure=False, extra=()):
    """Inv1, Inv2, Inv3 (+closure) of a removal-enabled graph; returns a list of human-readable problems."""
    pr = []
    directed = G.is_directed()
    P = pairs_of(G)
    for u, v, tl in P:
        if not isinstance(tl, list) or len(tl) == 0:
            pr.append("pair %r has an empty timeline" % ((u, v),))
            continue
        prev = None
        for ab in tl:
            if len(ab) != 2 or ab[0] > ab[1]:
                pr.append("pair %r has a malformed interval %r" % ((u, v), ab))
            if prev is not None and not (prev + 1 < ab[0]):
                pr.append("pair %r timeline not sorted/disjoint/non-adjacent: %r" % ((u, v), tl))
            prev = ab[1]
        if directed:
            if G._pred[v][u] is not G._succ[u][v]:
                pr.append("pair %r: successor and predecessor entries differ" % ((u, v),))
        else:
            if G._adj[v][u] is not G._adj[u][v]:
                pr.append("pair %r: the two directions do not share one entry" % ((u, v),))
        if u not in G._node or v not in G._node:
            pr.append("endpoint of %r is not a node" % ((u, v),))
    adj = G._succ if directed else G._adj
    for u in adj:
        for v in adj[u]:
            if 't' not in adj[u][v]:
                pr.append("adjacency entry %r without a timeline" % ((u, v),))
    if pr:
        return pr
    ks = instants_of(G, extra)
    for k in ks:
        cnt = sum(1 for u, v, tl in P if present(tl, k))
        if cnt == 0:
            if k in G.snapshots:
                pr.append("snapshot id %r listed although nothing is present (count %r)" % (k, G.snapshots[k]))
        else:
            if k not in G.snapshots:
                pr.append("instant %r inhabited by %d interaction(s) but not a snapshot id" % (k, cnt))
            elif G.snapshots[k] != 2 * cnt:
                pr.append("snapshot %r counts %r/2 interactions, %d present" % (k, G.snapshots[k], cnt))
        evs = list(G.time_to_edge.get(k, {}) or {}) if k in G.time_to_edge else []
        known = {}
        for u, v, tl in P:
            known[(u, v)] = tl
        for ev in evs:
            key = (ev[0], ev[1])
            if key not in known and not (not directed and (ev[1], ev[0]) in known):
                pr.append("event %r at %r for a pair that has no interaction" % (ev, k))
        for u, v, tl in P:
            plus = [(x, y, op) for (x, y, op) in evs if op == '+' and ((x, y) == (u, v) or (not directed and (x, y) == (v, u)))]
            minus = [(x, y, op) for (x, y, op) in evs if op == '-' and ((x, y) == (u, v) or (not directed and (x, y) == (v, u)))]
            starts = any(a == k for a, b in tl)
            ends = any(b + 1 == k for a, b in tl)
            if len(plus) > 1 or len(minus) > 1:
                pr.append("pair %r: repeated event at %r: %r" % ((u, v), k, plus + minus))
            if bool(plus) != starts:
                pr.append("pair %r: '+' event at %r is %s but a run %s there (timeline %r)" %
                          ((u, v), k, "stored" if plus else "missing", "starts" if starts else "does not start", tl))
            if minus and not ends:
                pr.append("pair %r: '-' event at %r but no run ends at %r (timeline %r)" % ((u, v), k, k - 1, tl))
            for a, b in tl:
                if b + 1 == k and not minus:
                    if b - a + 1 >= (2 if strong_closure else 3):
                        pr.append("pair %r: run %r has no closing '-' event at %r" % ((u, v), [a, b], k))
    return pr


def stream_ok(G):
    """stream_interactions(): chronological, no repeated (pair, op, t)."""
    pr = []
    st = list(G.stream_interactions())
    ts = [x[3] for x in st]
    if ts != sorted(ts):
        pr.append("stream not chronological: %r" % (st,))
    seen = set()
    for u, v, op, t in st:
        key = ((u, v) if G.is_directed() else frozenset((u, v)), op, t)
        if key in seen:
            pr.append("stream repeats %r" % ((u, v, op, t),))
        seen.add(key)
    return pr


def state_of(G):
    """Deep, order-insensitive-where-appropriate copy of everything observable (for 'unchanged' comparisons)."""
    adj = G._succ if G.is_directed() else G._adj
    return {
        "nodes": {n: dict(d) for n, d in G._node.items()},
        "node_order": list(G._node),
        "adj": {u: {v: [list(x) for x in adj[u][v].get('t', [])] for v in adj[u]} for u in adj},
        "snapshots": dict(G.snapshots),
        "events": {k: list(v) for k, v in G.time_to_edge.items() if not isinstance(v, int) and len(v)},
        "stream": list(G.stream_interactions()),
        "ids": G.temporal_snapshots_ids(),
    }


def replay_stream(stream, directed):
    """Reference reader of C05/C10: '+' = appears, following '-' = vanishes, unclosed '+' = that single instant."""
    tl = {}
    openat = {}
    for u, v, op, t in stream:
        key = (u, v) if directed else tuple(sorted((u, v), key=repr))
        if op == '+':
            if key in openat:
                tl.setdefault(key, []).append([openat[key], openat[key]])
            openat[key] = t
        else:
            if key in openat:
                tl.setdefault(key, []).append([openat[key], t - 1])
                del openat[key]
    for key, t in openat.items():
        tl.setdefault(key, []).append([t, t])
    return tl
