"""C11 - JSON node-link data round-trips class, nodes, attributes and presence."""
import json

import dynetx as dn
from dynetx.readwrite import json_graph

from . import build, inv, models
from .core import Registry
from .h_c09 import SHAPES, mk_graph
from .models import assume, reach, sbool

REG = Registry("C11")
REG.notes += [
    "the C JSON encoder realises symbolic values, so serialisability is decided structurally: every container of "
    "node_link_data is a dict with str keys or a list and every leaf is int/str/bool/None/float; json.dumps accepts exactly "
    "such values and loads(dumps(x)) == x on them (json's contract, assumed).  A real json.dumps/loads pass is executed on the "
    "concrete witnesses in the native replay",
    "M3 source graphs (runs <= L+1 instants: one link per instant), isolated node, nested JSON-native attributes",
]
FUNCTIONS = ["dynetx/readwrite/json_graph/node_link.py:node_link_data", "dynetx/readwrite/json_graph/node_link.py:node_link_graph"]
models.install()
for _c in (dn.DynGraph, dn.DynDiGraph):
    _g = _c()
    _g.add_node(9, a=[1])
    _g.add_interaction(1, 2, 0, 3)
    _g.add_interaction(2, 1, 5)
    json_graph.node_link_graph(json.loads(json.dumps(json_graph.node_link_data(_g))))
    json_graph.node_link_graph({"nodes": [{"id": 1}], "links": [], "graph": {}}, directed=True)


def T_json(a0: int, b0: int, a1: int, b1: int, q: int) -> bool:
    pass


def json_native(x):
    """Structural JSON-serialisability: containers are dict(str keys)/list, leaves int/str/bool/None/float."""
    if isinstance(x, dict):
        for k in x:
            if not isinstance(k, str) or not json_native(x[k]):
                return False
        return True
    if isinstance(x, (list, tuple)):
        return all(json_native(y) for y in x)
    return x is None or isinstance(x, (bool, int, float, str))


def reload_concrete(x):
    """json.loads(json.dumps(x)) for the concrete parts (graph and node attributes), outside the tracer."""
    if models.NATIVE:
        return json.loads(json.dumps(x))
    from crosshair.core import deep_realize
    y = deep_realize(x)
    return models.untraced(lambda: json.loads(json.dumps(y)))


def body(cfg, a0, b0, a1, b1, q):
    directed = cfg["directed"]
    names = cfg["names"]
    g, pairs = mk_graph(cfg, a0, b0, a1, b1)
    iso = "iso" if isinstance(names[0], str) else 9
    build.add_node_raw(g, iso)
    attrs = {names[0]: {"label": "x", "score": 1.5, "tags": ["a", {"k": None}]}, names[1]: {"flag": True}, names[2]: {},
             iso: {"alone": [1, 2]}}
    for n in attrs:
        g._node[n].update(attrs[n])
    g.graph["meta"] = {"title": "t", "list": [1, {"z": False}]}
    idkey = cfg["idkey"]
    at = {"id": idkey, "source": "source", "target": "target"}
    data = json_graph.node_link_data(g, attrs=at) if idkey != "id" else json_graph.node_link_data(g)
    if sorted(data.keys()) != ["directed", "graph", "links", "nodes"] or data["directed"] is not directed:
        return False
    if not json_native(data["graph"]) or not json_native(data["nodes"]):
        return False
    if data["graph"] != {"meta": {"title": "t", "list": [1, {"z": False}]}}:
        return False
    # every node once, with its attributes
    allnodes = list(g._node)
    if len(data["nodes"]) != len(allnodes):
        return False
    listed = []
    for nd in data["nodes"]:                 # every node exactly once (the order of the list is not part of the property)
        n = nd.get(idkey)
        if n not in allnodes or n in listed:
            return False
        listed.append(n)
        if {k: v for k, v in nd.items() if k != idkey} != attrs.get(n, {}):
            return False
    # exactly one link per interaction and per present instant, oriented as in G
    exp = []
    for (u, v, tl) in pairs:
        for ab in tl:
            k = ab[0]
            while sbool(k <= ab[1]):
                exp.append((u, v, k))
                k = k + 1
    links = data["links"]
    if len(links) != len(exp):
        return False
    used = [False] * len(links)
    for (u, v, t) in exp:
        hit = False
        for i, l in enumerate(links):
            if sorted(l.keys()) != ["source", "target", "time"]:
                return False
            same = (l["source"] == u and l["target"] == v) or (not directed and l["source"] == v and l["target"] == u)
            if not used[i] and same and sbool(l["time"] == t):
                used[i] = True
                hit = True
                break
        if not hit:
            return False
    for l in links:
        if not isinstance(l["source"], (int, str)) or not isinstance(l["target"], (int, str)):
            return False
    if len(exp) > len(pairs):
        reach("multi_instant")
    # rebuild (what json.loads(json.dumps(data)) returns is, by json's contract, an equal structure of fresh objects)
    fresh = {"directed": data["directed"], "graph": reload_concrete(data["graph"]), "nodes": reload_concrete(data["nodes"]),
             "links": [{"source": l["source"], "target": l["target"], "time": l["time"]} for l in links]}
    mode = cfg["mode"]
    if mode == "nodir":
        del fresh["directed"]
        h = json_graph.node_link_graph(fresh, directed=directed, attrs=at)
    elif mode == "wrongdir":
        h = json_graph.node_link_graph(fresh, directed=not directed, attrs=at)    # the argument is used only if absent
    else:
        h = json_graph.node_link_graph(fresh, attrs=at) if idkey != "id" else json_graph.node_link_graph(fresh)
    if type(h) is not type(g):
        return False
    if sorted(h._node, key=repr) != sorted(allnodes, key=repr):
        return False
    for n in allnodes:
        if h._node[n] != attrs.get(n, {}):
            return False
    if h.graph != {"meta": {"title": "t", "list": [1, {"z": False}]}}:
        return False
    for u in allnodes:
        for v in allnodes:
            e = False
            for (x, y, tl) in pairs:
                if (x, y) == (u, v) or (not directed and (y, x) == (u, v)):
                    e = e or sbool(inv.present_at(tl, q))
            if e:
                reach("present_at_q")
            if sbool(h.has_interaction(u, v, q)) != e:
                return False
    return build.wellformed_at(h, q, minlen=3)


INTS = [1, 2, 3]
STRS = ["a", "bb", "c"]
for directed in (False, True):
    for shape in SHAPES:
        if shape in ("recip", "back_edge") and not directed:
            continue
        for names in (INTS, STRS):
            for idkey in ("id", "name"):
                for mode in ("plain", "nodir", "wrongdir"):
                    for L in (1, 2):
                        quick = L == 1 and ((mode == "plain") or (idkey == "id" and names is INTS))
                        REG.add("nl_%s_%s_%s_%s_%s_L%d" % ("d" if directed else "u", shape, "int" if names is INTS else "str", idkey, mode, L),
                                T_json, body, cfg=dict(directed=directed, shape=shape, names=names, idkey=idkey, mode=mode, L=L),
                                tier="quick" if quick else "thorough", timeout=600, tags=["present_at_q", "multi_instant"], twins=1,
                                bounds="%s shape %s (symbolic canonical timelines, runs <= %d instants) + isolated node, nested "
                                       "JSON-native node and graph attributes, %s node ids, attrs['id']=%r, rebuild mode %s; "
                                       "unbounded q" % ("DynDiGraph" if directed else "DynGraph", shape, L + 1,
                                                        "int" if names is INTS else "str", idkey, mode),
                                what="node_link_data: directed flag, graph attributes, every node once with its attributes, exactly one "
                                     "link {source,target,time} per interaction and present instant (oriented as in G), all containers/"
                                     "leaves JSON-native; node_link_graph of the re-loaded data: same class (the directed argument "
                                     "only when the data does not say), nodes, attributes, presence at q, Inv1-Inv3")
