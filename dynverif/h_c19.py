"""C19 - untimed networkx mutators are blocked; frozen graphs are immutable."""
import inspect

import dynetx as dn
import networkx as nx

from . import build, inv, models
from .core import Registry
from .models import assume, reach, sbool

REG = Registry("C19")
REG.notes += [
    "the *programs* axis is enumerated by reflection at run time: every public callable of type(G) (installed networkx + "
    "dynetx overrides) plus dn.set_edge_attributes/get_edge_attributes, with arguments synthesised from the parameter names; "
    "the *state* axis is symbolic: M3 graph with two pairs, explicit counter and event index, symbolic run starts, arbitrary q",
    "known finding F-C19-frozen-add: freeze() does not block add_interaction and its bulk helpers (pinned by "
    "test_functions_directed, which adds interactions after dn.freeze)",
    "update() is exercised with an edges argument (the form that would create an untimed edge)",
]
FUNCTIONS = ["dynetx/classes/dyngraph.py:DynGraph.(inherited networkx API)", "dynetx/classes/dyndigraph.py:DynDiGraph.(inherited networkx API)",
             "dynetx/classes/function.py:freeze", "dynetx/classes/function.py:is_frozen", "dynetx/utils/decorators.py:not_implemented"]
models.install()

BLOCKED = ["add_edge", "add_edges_from", "add_weighted_edges_from", "remove_edge", "remove_edges_from", "remove_node",
           "remove_nodes_from", "edges_iter"]
BLOCKED_DI = ["in_edges", "out_edges", "in_edges_iter", "out_edges_iter"]
FROZEN_MUTATORS = ["add_node", "add_nodes_from", "remove_node", "remove_nodes_from", "add_edge", "add_edges_from",
                   "add_weighted_edges_from", "remove_edge", "remove_edges_from", "clear", "clear_edges", "update"]
FROZEN_ADD = ["add_interaction", "add_interactions_from", "add_path", "add_star", "add_cycle"]
SKIP = {"__class__"}


def public_callables(cls):
    out = []
    for name in sorted(dir(cls)):
        if name.startswith("_"):
            continue
        attr = inspect.getattr_static(cls, name)
        if isinstance(attr, property) or type(attr).__name__ == "cached_property":
            continue
        if callable(getattr(cls, name, None)):
            out.append(name)
    return out


CALLABLES = {False: public_callables(dn.DynGraph), True: public_callables(dn.DynDiGraph)}


def synth(name, fn):
    """Argument tuples for a callable, from its parameter names."""
    try:
        sig = inspect.signature(fn)
    except (TypeError, ValueError):
        return [()]
    table = {"u": 1, "v": 2, "n": 1, "node": 1, "node_for_adding": 7, "u_of_edge": 1, "v_of_edge": 5, "nbunch": [1, 7],
             "nodes": [1, 5], "nodes_for_adding": [7, 8], "ebunch": [(1, 2), (5, 6)], "ebunch_to_add": [(1, 5, 2.0)],
             "edges": [(1, 2)], "nlist": [1, 2], "values": {1: "x"}, "name": "w", "default": None, "data": False,
             "reciprocal": False, "as_view": False, "copy": True, "with_data": True, "weight": "weight",
             "attr_dict": None, "t_from": 0, "t_to": 3}
    args = []
    for p in sig.parameters.values():
        if p.kind in (p.VAR_POSITIONAL, p.VAR_KEYWORD):
            continue
        if p.default is not p.empty and p.name not in ("edges",):
            continue
        if p.name in table:
            args.append(table[p.name])
        elif p.name == "t":
            args.append(1)
        else:
            args.append(1)
    variants = [tuple(args)]
    if name in ("update",):
        variants = [()]
    return variants


def T_api(a: int, c: int, q: int) -> bool:
    pass


def mk(directed, a, c, lens):
    g = build.new_graph(directed)
    build.add_node_raw(g, 9, {"k": 1})
    build.put_pair(g, 1, 2, [[a, a + lens[0]]])
    build.put_pair(g, 2, 1 if directed else 3, [[c, c + lens[1]]])
    return g


def snapshot(g, q):
    adj = g._succ if g.is_directed() else g._adj
    return {"nodes": {n: dict(d) for n, d in g._node.items()},
            "adj": {u: {v: [list(x) for x in adj[u][v]['t']] for v in adj[u]} for u in adj},
            "snap_q": (q in g.snapshots, g.snapshots.get(q)), "ev_q": build.events_at(g, q),
            "nsnap": len(g.snapshots), "nev": len(g.time_to_edge)}


def same(s1, s2):
    if s1["nodes"] != s2["nodes"] or set(s1["adj"]) != set(s2["adj"]):
        return False
    for u in s1["adj"]:
        if set(s1["adj"][u]) != set(s2["adj"][u]):
            return False
        for v in s1["adj"][u]:
            if not build.tl_equal(s1["adj"][u][v], s2["adj"][u][v]):
                return False
    if s1["snap_q"][0] != s2["snap_q"][0] or (s1["snap_q"][0] and not sbool(s1["snap_q"][1] == s2["snap_q"][1])):
        return False
    return s1["ev_q"] == s2["ev_q"] and s1["nsnap"] == s2["nsnap"] and s1["nev"] == s2["nev"]


def api_body(cfg, a, c, q):
    directed = cfg["directed"]
    # run starts confined to a window: several observers (inter-event distributions) store time differences in local
    # dicts, which realises them (M9); with a window the realisation is finite
    assume((0 <= a) & (a < cfg.get("W", 4)) & (0 <= c) & (c < cfg.get("W", 4)))
    for name in cfg["names"]:
        g = mk(directed, a, c, cfg["lens"])
        fn = getattr(g, name)
        for args in synth(name, fn):
            before = snapshot(g, q)
            raised = None
            kwargs = {"edges": [(1, 5)]} if name == "update" else {}
            try:
                r = fn(*args, **kwargs)
                if inspect.isgenerator(r) or hasattr(r, "__next__"):
                    for _ in r:
                        pass
            except nx.NetworkXNotImplemented as ex:
                raised = ex
            except Exception as ex:
                raised = ex
            blocked = name in BLOCKED or (directed and name in BLOCKED_DI) or name == "update"
            if blocked:
                reach("blocked")
                if not isinstance(raised, nx.NetworkXNotImplemented):
                    return False
                if not same(before, snapshot(g, q)):
                    return False
            else:
                # whatever happened, no adjacency entry without a timeline, and counter / events in step with presence at q
                adj = g._succ if directed else g._adj
                for u in adj:
                    for v in adj[u]:
                        if 't' not in adj[u][v]:
                            return False
                if not build.wellformed_at(g, q, minlen=3):
                    return False
                if raised is None and not same(before, snapshot(g, q)):
                    reach("mutated_ok")
    # module-level blocked edge-attribute helpers
    g = mk(directed, a, c, cfg["lens"])
    for call in (lambda: dn.set_edge_attributes({(1, 2): 3}, "w"), lambda: dn.get_edge_attributes(g, "w")):
        try:
            call()
            return False
        except nx.NetworkXNotImplemented:
            pass
    return True


def frozen_body(cfg, a, c, q):
    directed = cfg["directed"]
    g = mk(directed, a, c, cfg["lens"])
    r = dn.freeze(g)
    if r is not g or not dn.is_frozen(g):
        return False
    if dn.is_frozen(mk(directed, a, c, cfg["lens"])):
        return False
    calls = []
    for name in cfg["names"]:
        if not hasattr(g, name):
            continue
        args = {"add_node": (7,), "add_nodes_from": ([7, 8],), "remove_node": (1,), "remove_nodes_from": ([1],), "add_edge": (1, 5),
                "add_edges_from": ([(1, 5)],), "add_weighted_edges_from": ([(1, 5, 1.0)],), "remove_edge": (1, 2),
                "remove_edges_from": ([(1, 2)],), "clear": (), "clear_edges": (), "update": (),
                "add_interaction": (1, 5, a), "add_interactions_from": ([(1, 5)], a), "add_path": ([1, 5, 6], a),
                "add_star": ([1, 5, 6], a), "add_cycle": ([1, 5, 6], a)}[name]
        kwargs = {"edges": [(1, 5)]} if name == "update" else {}
        before = snapshot(g, q)
        try:
            getattr(g, name)(*args, **kwargs)
            return False
        except Exception:
            reach("frozen_raises")
        if not same(before, snapshot(g, q)):
            return False
    return True


def chunks(xs, n):
    return [xs[i:i + n] for i in range(0, len(xs), n)]


for directed in (False, True):
    names = [n for n in CALLABLES[directed] if n not in SKIP]
    for i, ch in enumerate(chunks(names, 8)):
        REG.add("api_%s_%02d" % ("d" if directed else "u", i), T_api, api_body, cfg=dict(directed=directed, names=ch, lens=(1, 0)),
                tier="quick", timeout=900, tags=(["blocked"] if any(n in BLOCKED or n == "update" or (directed and n in BLOCKED_DI) for n in ch) else []),
                twins=1,
                bounds="%s with pairs (1,2) [2 instants] and %s [1 instant], symbolic starts in 0..3, isolated node 9, explicit counter and "
                       "event index; callables %s with synthesised arguments; arbitrary q" %
                       ("DynDiGraph" if directed else "DynGraph", "(2,1)" if directed else "(2,3)", ch),
                what="the listed untimed mutators and blocked edge views raise NetworkXNotImplemented and leave nodes, timelines, "
                     "counter and events untouched; after any other public callable (whether it returns or raises) no adjacency "
                     "entry lacks a timeline and Inv1-Inv3 hold at q; dn.set/get_edge_attributes raise")
    REG.add("frozen_%s" % ("d" if directed else "u"), T_api, frozen_body, cfg=dict(directed=directed, names=FROZEN_MUTATORS, lens=(1, 0)),
            tier="quick", timeout=600, tags=["frozen_raises"], twins=1,
            bounds="as api_*, after dn.freeze(G); mutators %s" % FROZEN_MUTATORS,
            what="freeze returns G, is_frozen(G) is true (false for an unfrozen graph), every structural mutator raises and leaves G unchanged")
    REG.add("finding_frozen_add_%s" % ("d" if directed else "u"), T_api, frozen_body,
            cfg=dict(directed=directed, names=FROZEN_ADD, lens=(1, 0)), tier="quick", timeout=300, finding="F-C19-frozen-add",
            bounds="as frozen_*, mutators %s" % FROZEN_ADD,
            what="(expected to fail) add_interaction and its bulk helpers raise on a frozen graph")
