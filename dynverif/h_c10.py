"""C10 - interaction-list files replay the event stream and round-trip presence."""
import io
import os

import dynetx as dn
from dynetx.readwrite import edgelist

from . import build, inv, models
from .core import Registry, I8
from .h_c09 import scratch_dir
from .models import assume, reach, sbool, tok, untok

REG = Registry("C10")
REG.notes += [
    "M4 token stub for timestamps (see C09); M3 source graphs with an explicit event index and counter (run lengths are "
    "concrete per condition, starts symbolic); results built by the real reader on M1 maps",
    "known finding F-C10-unclosed-2run (same root cause as F-C05-unclosed-2run): a 2-instant run without closing event is "
    "written as a single '+' row and read back as one instant; graphs are generated without such runs",
    "well-formed logs: times non-decreasing, a '-' only after a '+' of its pair and strictly later than that pair's latest "
    "event, consecutive events of a pair at most L apart (the reader re-adds the span up to the '-')",
]
FUNCTIONS = ["dynetx/readwrite/edgelist.py:write_interactions", "dynetx/readwrite/edgelist.py:generate_interactions",
             "dynetx/readwrite/edgelist.py:read_interactions", "dynetx/readwrite/edgelist.py:parse_interactions",
             "dynetx/classes/dyngraph.py:DynGraph.stream_interactions"]
models.install()
models.stub_environment()
edgelist.make_str = lambda x: tok(x) if not isinstance(x, str) else x
for _c in (dn.DynGraph, dn.DynDiGraph):
    _g = _c()
    _g.add_interaction(1, 2, 0, 3)
    _g.add_interaction(2, 1, 5)
    _b = io.BytesIO()
    dn.write_interactions(_g, _b, delimiter=",")
    _b.seek(0)
    dn.read_interactions(_b, directed=_c is dn.DynDiGraph, delimiter=",", nodetype=int, timestamptype=int)
    _p = os.path.join(scratch_dir(), "w.gz")
    dn.write_interactions(_g, _p)
    dn.read_interactions(_p, nodetype=int, timestamptype=int)
    os.unlink(_p)

# shape: list of (u, v, [run lengths-1], [closed flags or None])
SHAPES = {
    "one_21": [(1, 2, [2, 0], None)],
    "one_closed_points": [(1, 2, [0, 0], [True, False])],
    "one_12": [(1, 2, [1, 2], None)],
    "loop_edge": [(1, 1, [1], None), (1, 2, [0], None)],
    "share": [(1, 2, [1], None), (3, 2, [2], None)],
    "recip": [(1, 2, [1], None), (2, 1, [2], None)],
    "recip_same": [(1, 2, [2], None), (2, 1, [1], None)],
    "unclosed2": [(1, 2, [1], [False])],
}


def T_rt(s0: int, s1: int, s2: int, q: int) -> bool:
    pass


def mk(cfg, starts):
    g = build.new_graph(cfg["directed"])
    pairs = []
    vals = list(starts)
    for (u, v, lens, closed) in SHAPES[cfg["shape"]]:
        tl = []
        for ln in lens:
            a = vals.pop(0)
            tl.append([a, a + ln])
        assume(inv.canonical_nf(tl))
        build.put_pair(g, u, v, tl, index=True, closed=closed)
        pairs.append((u, v, tl))
    return g, pairs


def rt_body(cfg, s0, s1, s2, q):
    directed, d, target = cfg["directed"], cfg["delimiter"], cfg["target"]
    g, pairs = mk(cfg, [s0, s1, s2])
    stream = list(g.stream_interactions())
    path = None
    try:
        if target == "bytesio":
            out = io.BytesIO()
            dn.write_interactions(g, out, delimiter=d, encoding=cfg["encoding"])
            data = out.getvalue()
            src = io.BytesIO(data)
        else:
            path = os.path.join(scratch_dir(), "i" + {"plain": ".txt", "gz": ".gz", "bz2": ".bz2"}[target])
            dn.write_interactions(g, path, delimiter=d, encoding=cfg["encoding"])
            if target == "gz":
                import gzip
                with gzip.open(path, "rb") as fh:
                    data = fh.read()
            elif target == "bz2":
                import bz2
                with bz2.BZ2File(path, "rb") as fh:
                    data = fh.read()
            else:
                with open(path, "rb") as fh:
                    data = fh.read()
            src = path
        # rows = the events of stream_interactions(), in order
        lines = data.decode(cfg["encoding"]).split("\n")
        if lines[-1] != "" or len(lines) - 1 != len(stream):
            return False
        prev = None
        for ln, ev in zip(lines[:-1], stream):
            f = ln.split(d)
            if len(f) != 4 or int(f[0]) != ev[0] or int(f[1]) != ev[1] or f[2] != ev[2] or sbool(untok(f[3]) != ev[3]):
                return False
            if prev is not None and sbool(prev > ev[3]):
                return False
            prev = ev[3]
        h = dn.read_interactions(src, directed=directed, delimiter=d, nodetype=int, timestamptype=untok, encoding=cfg["encoding"])
    finally:
        if path is not None and os.path.exists(path):
            os.unlink(path)
    if type(h) is not type(g):
        return False
    for u in (1, 2, 3):
        for v in (1, 2, 3):
            exp = False
            for (x, y, tl) in pairs:
                if (x, y) == (u, v) or (not directed and (y, x) == (u, v)):
                    exp = exp or sbool(inv.present_at(tl, q))
            if exp:
                reach("present_at_q")
            if sbool(h.has_interaction(u, v, q)) != exp:
                return False
    # same stream (as a chronological multiset: order within one instant is the insertion order of the writer)
    hs = list(h.stream_interactions())
    if len(hs) != len(stream):
        return False
    used = [False] * len(hs)
    for ev in stream:
        hit = False
        for i, e2 in enumerate(hs):
            if not used[i] and e2[0] == ev[0] and e2[1] == ev[1] and e2[2] == ev[2] and sbool(e2[3] == ev[3]):
                used[i] = True
                hit = True
                break
        if not hit:
            return False
    if len(stream) > 2:
        reach("several_events")
    return build.wellformed_at(h, q, minlen=3)


def T_log(kinds: I8, ts: I8, q: int) -> bool:
    pass


def log_body(cfg, kinds, ts, q):
    """Reader alone on a symbolic well-formed event log."""
    directed, n, L = cfg["directed"], cfg["events"], cfg["L"]
    A = (1, 2)
    B = (2, 1) if cfg["recip"] else (2, 3)
    runs = {A: [], B: []}
    last_ev = {}
    lines = []
    prev = None
    for i in range(n):
        kd = kinds[i]
        assume((0 <= kd) & (kd <= 3))
        t = ts[i]
        if prev is not None:
            assume(prev <= t)
        prev = t
        pair = A if sbool(kd < 2) else B
        plus = sbool(kd == 0) or sbool(kd == 2)
        key = pair
        if not directed and cfg["recip"]:
            key = A                       # (1,2) and (2,1) are one undirected pair
        if plus:
            if key in last_ev:
                assume(t - last_ev[key] <= L)
            runs[key].append([t, t])
            op = "+"
        else:
            assume(key in last_ev)
            assume((t > last_ev[key]) & (t - last_ev[key] <= L))
            r = runs[key][-1]
            if sbool(t - 1 > r[1]):
                r[1] = t - 1
            op = "-"
            reach("minus")
        last_ev[key] = t
        lines.append("%d %d %s %s" % (pair[0], pair[1], op, tok(t)))
    if runs[A] and runs[B]:
        reach("two_pairs")
    h = edgelist.parse_interactions(lines, directed=directed, nodetype=int, timestamptype=untok)
    for pair in (A, B):
        if pair == B and not directed and cfg["recip"]:
            continue
        exp = sbool(inv.present_at(runs[pair], q))
        if exp:
            reach("present_at_q")
        u, v = pair
        if sbool(h.has_interaction(u, v, q)) != exp:
            return False
        if not directed and sbool(h.has_interaction(v, u, q)) != exp:
            return False
        if bool(h.has_interaction(u, v)) != bool(runs[pair]):
            return False
    return build.inv1_all(h) and build.inv2_at(h, q)


k = 0
for directed in (False, True):
    for shape in SHAPES:
        if shape == "unclosed2":
            continue
        if shape.startswith("recip") and not directed:
            continue
        for ti, target in enumerate(("bytesio", "plain", "gz", "bz2")):
            for di, d in enumerate((" ", ",", "\t")):
                for ei, enc in enumerate(("utf-8", "latin-1")):
                    quick = (ti + di + ei + k) % 6 == 0
                    REG.add("rt_%s_%s_%s_d%d_%s" % ("d" if directed else "u", shape, target, di, enc.replace("-", "")), T_rt, rt_body,
                            cfg=dict(directed=directed, shape=shape, target=target, delimiter=d, encoding=enc),
                            tier="quick" if quick else "thorough", timeout=900, tags=["present_at_q", "several_events"], twins=1,
                            bounds="%s shape %s = %s (u, v, run lengths-1, closing flags), symbolic run starts; target %s, delimiter "
                                   "%r, encoding %s; unbounded q" % ("DynDiGraph" if directed else "DynGraph", shape,
                                                                     SHAPES[shape], target, d, enc),
                            what="the written rows are exactly the events of stream_interactions() in chronological order; the graph "
                                 "read back has the same class, the same presence at q for all ordered pairs, the same stream "
                                 "(multiset of events) and satisfies Inv1-Inv3 at q")
        k += 1
    for recip in (False, True):
        for n in (2, 3, 4):
            REG.add("log_%s_%s_e%d" % ("d" if directed else "u", "recip" if recip else "two", n), T_log, log_body,
                    cfg=dict(directed=directed, recip=recip, events=n, L=2), tier="quick" if n <= 3 else "thorough",
                    timeout=900 if n <= 3 else 3000, tags=["minus", "present_at_q"] + (["two_pairs"] if (directed or not recip) else []),
                    twins=1,
                    bounds="well-formed log of %d events over pairs (1,2) and %s (symbolic kind '+'/'-' and pair per event), unbounded "
                           "non-decreasing symbolic times, consecutive events of a pair <= 2 apart; unbounded q" %
                           (n, "(2,1)" if recip else "(2,3)"),
                    what="parse_interactions gives presence = replay semantics ('+'@t: present at t; '-'@s: present from the latest "
                         "appearance through s-1), timelines canonical, counter exact at q")
    REG.add("finding_unclosed2_%s" % ("d" if directed else "u"), T_rt, rt_body,
            cfg=dict(directed=directed, shape="unclosed2", target="bytesio", delimiter=" ", encoding="utf-8"),
            tier="quick", timeout=300, finding="F-C10-unclosed-2run",
            bounds="graph with one 2-instant run that has no closing event (reachable: add(u,v,t); add(u,v,t+1))",
            what="(expected to fail) write_interactions/read_interactions preserve the presence of an unclosed 2-instant run")
