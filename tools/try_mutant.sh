#!/bin/bash
# usage: tools/try_mutant.sh <patch.diff> <PROP> [extra check args]   - applies the patch to /repo, runs the check, restores /repo
set -u
patch=$1; prop=$2; shift 2
cd /repo || exit 9
if [ -n "$(git status --porcelain)" ]; then echo "/repo not clean"; exit 9; fi
git apply "$patch" || { echo "patch does not apply"; exit 9; }
trap 'git -C /repo checkout -- . ; git -C /repo status --porcelain' EXIT
cd /verif && ./check "$prop" --no-evidence "$@"
echo "exit=$?"
