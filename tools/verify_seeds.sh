#!/bin/bash
# Confirms every seeded change in a scratch worktree (outside /repo and /verif): applies to HEAD, suite green, demo fails with / passes without.
set -u
W=/tmp/seedverify_wt
git -C /repo worktree remove --force $W 2>/dev/null
git -C /repo worktree add -q --detach $W HEAD || exit 9
cd $W
for d in /tmp/seed_out/C*/; do
  id=$(basename $d)
  for n in "" 2 3; do
    p=$d/patch$n.diff; demo=$d/demo$n.py
    [ -f $p ] || continue
    git checkout -q -- . ; git clean -fdq
    clean_rc=$(PYTHONPATH=$W /venv/bin/python $demo >/dev/null 2>&1; echo $?)
    if git apply $p 2>/dev/null; then applies=yes; else applies=no; fi
    if [ $applies = yes ]; then
      tests=$(/venv/bin/python -m pytest -q -p no:cacheprovider dynetx/test 2>&1 | tail -1)
      mut_rc=$(PYTHONPATH=$W /venv/bin/python $demo >/dev/null 2>&1; echo $?)
    else tests="-"; mut_rc="-"; fi
    echo "$id patch$n applies=$applies tests=[$tests] demo_clean_rc=$clean_rc demo_mutant_rc=$mut_rc"
  done
done
cd /; git -C /repo worktree remove --force $W
