#!/usr/bin/env python3
"""Markdown table: per property, the condition families with their quick/thorough counts and one 'asserts' line."""
import importlib, os, sys, collections
sys.path.insert(0, os.environ.get("DYNVERIF_REPO", "/repo")); sys.path.insert(0, os.path.join(os.path.dirname(__file__), ".."))
print("| property | family | quick | thorough | asserts (first condition of the family) |")
print("|---|---|---|---|---|")
for i in range(1, 21):
    p = "C%02d" % i
    m = importlib.import_module("dynverif.h_" + p.lower())
    fam = collections.OrderedDict()
    for n, c in m.REG.conds.items():
        f = n.split("_")[0] if not n.startswith("finding") else "finding"
        if n.startswith("ctor"):
            f = "ctor"
        e = fam.setdefault(f, [0, 0, c.what])
        if c.tier == "quick":
            e[0] += 1
        e[1] += 1
    for f, (q, t, what) in fam.items():
        print("| %s | %s_* | %d | %d | %s |" % (p, f, q, t, what[:230].replace("|", "/")))
