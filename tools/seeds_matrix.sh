#!/bin/bash
# Development aid: runs the quick check of the property each seeded defect targets against a scratch worktree (outside
# /repo and /verif) carrying that defect, without touching /repo.  Output: one line per seed.
# usage: tools/seeds_matrix.sh [seed dir names...]   (default: all of /verif/seeded/*)
cd "$(dirname "$0")/.."
W=/tmp/seedmatrix_wt
seeds=${@:-$(ls seeded)}
for sd in $seeds; do
  prop=${sd%%-*}
  git -C /repo worktree remove --force $W 2>/dev/null
  git -C /repo worktree add -q --detach $W HEAD || exit 9
  if ! git -C $W apply $(pwd)/seeded/$sd/patch.diff; then echo "$sd: patch does not apply"; continue; fi
  s=$(date +%s)
  out=$(DYNVERIF_REPO=$W ./check $prop --tier ${TIER:-quick} --no-evidence ${EXTRA:-} 2>&1); rc=$?
  e=$(date +%s)
  nv=$(echo "$out" | grep -c "^VIOLATION")
  conds=$(echo "$out" | grep "^VIOLATION" | sed 's#.*/##; s#-[0-9a-f]*\.json##' | sort -u | head -4 | tr '\n' ' ')
  echo "$sd rc=$rc violations=$nv wall=$((e-s))s conds: $conds"
  git -C /repo worktree remove --force $W
done
