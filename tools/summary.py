#!/usr/bin/env python3
"""Prints a markdown table from evidence/*.json (what the last runs covered)."""
import glob, json, os, sys
DIR = sys.argv[1] if len(sys.argv) > 1 else "evidence"
rows = []
for f in sorted(glob.glob(os.path.join(os.path.dirname(__file__), "..", DIR, "C*.json"))):
    d = json.load(open(f))
    c = d["coverage"]
    rows.append("| %s | %s | %d/%d | %d | %d | %.0f | %.0f | %d | %d |" % (
        d["property_id"], d["tier"], c["conditions_confirmed"], c["conditions_total"], c["states"], c["transitions"],
        c["solver_time_s"], d["wall_s"], c["traces_validated_against_impl"], len(c.get("known_findings_reproduced", []))))
print("| property | tier | conditions confirmed/total | paths | solver queries | solver s | wall s | native replays | known findings |")
print("|---|---|---|---|---|---|---|---|---|")
print("\n".join(rows))
