"""Import every harness module and print its condition counts per tier (run before committing a change to a registration
grid: a module that no longer imports makes its check exit 3 = INCONCLUSIVE).  Usage: PYTHONPATH=/repo:/verif
.venv/bin/python tools/load_all.py"""
import importlib
import sys

bad = 0
for i in range(1, 21):
    nm = "dynverif.h_c%02d" % i
    try:
        m = importlib.import_module(nm)
        q = sum(1 for c in m.REG.conds.values() if c.tier == "quick")
        print("%s quick=%d thorough=%d" % (nm, q, len(m.REG.conds)))
    except Exception as e:  # noqa: BLE001
        bad += 1
        print("%s FAILED TO LOAD: %s: %s" % (nm, type(e).__name__, e))
sys.exit(1 if bad else 0)
