#!/usr/bin/env python3
"""Reads the output of tools/seeds_matrix.sh (file given as argv[1]), writes seeded/MATRIX.md and updates seeded/*/meta.json."""
import json, os, re, sys
root = os.path.join(os.path.dirname(os.path.abspath(__file__)), "..", "seeded")
rows = {}
for line in open(sys.argv[1]):
    m = re.match(r"(C\d\d-\d) rc=(\d+) violations=(\d+) wall=(\d+)s conds:\s*(.*)", line.strip())
    if m:
        rows[m.group(1)] = m.groups()[1:]
tier = sys.argv[2] if len(sys.argv) > 2 else "quick"
out = ["| seed | property | what the change is (first line of its patch) | %s check | conditions that refuted (first 4) |" % tier, "|---|---|---|---|---|"]
caught = 0
for sd in sorted(os.listdir(root)):
    if not re.match(r"C\d\d-\d$", sd):
        continue
    meta = json.load(open(os.path.join(root, sd, "meta.json")))
    patch = open(os.path.join(root, sd, "patch.diff")).read()
    files = ", ".join(os.path.basename(f) for f in meta["files_changed"])
    r = rows.get(sd)
    if r is None:
        verdict, conds = "not run", ""
    else:
        rc, nv, wall, conds = r
        verdict = "CAUGHT (exit 1, %s VIOLATION lines, %ss)" % (nv, wall) if rc == "1" else ("missed (exit 0, %ss)" % wall if rc == "0" else "inconclusive (exit %s)" % rc)
        if rc == "1":
            caught += 1
        meta.setdefault("checks_run", {})[tier] = {"command": "./check %s --tier %s (against a scratch worktree carrying the patch; tools/seeds_matrix.sh)" % (meta["property"], tier),
                                                   "exit": int(rc), "violation_lines": int(nv), "wall_s": int(wall), "refuting_conditions": conds.split()}
        json.dump(meta, open(os.path.join(root, sd, "meta.json"), "w"), indent=1)
    out.append("| %s | %s | %s | %s | %s |" % (sd, meta["property"], files, verdict, conds.strip()))
n = len([x for x in out if x.startswith("| C")])
out.append("")
out.append("%d of %d seeded defects are caught by the %s check of the property they target." % (caught, n, tier))
open(os.path.join(root, "MATRIX_%s.md" % tier), "w").write("\n".join(out) + "\n")
print(out[-1])
