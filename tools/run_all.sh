#!/bin/bash
# usage: tools/run_all.sh quick|thorough [IDs...]  - runs the checks sequentially, prints one summary line each
tier=${1:-quick}; shift
ids=${@:-C01 C02 C03 C04 C05 C06 C07 C08 C09 C10 C11 C12 C13 C14 C15 C16 C17 C18 C19 C20}
cd "$(dirname "$0")/.."
for p in $ids; do
  s=$(date +%s)
  out=$(./check $p --tier $tier 2>&1); rc=$?
  e=$(date +%s)
  echo "$p rc=$rc wall=$((e-s))s :: $(echo "$out" | grep -E "^$p tier" | tail -1)"
  echo "$out" | grep -E "VIOLATION|INCONCLUSIVE" | cut -c1-300 | head -5
done
