#!/bin/bash
# Build the overlay venv (python 3.12 of /venv + crosshair-tool from the offline wheelhouse). Idempotent.
set -e
cd "$(dirname "$0")"
exec 9>.lock
flock 9
if [ ! -x .venv/bin/python ] || ! .venv/bin/python -c "import crosshair, z3, networkx" 2>/dev/null; then
  rm -rf .venv
  /venv/bin/python -m venv .venv
  echo "import site; site.addsitedir('/venv/lib/python3.12/site-packages')" > .venv/lib/python3.12/site-packages/_venv_overlay.pth
  PIP_NO_INDEX=1 .venv/bin/pip install -q --no-index --find-links /opt/veriftools/wheels crosshair-tool
fi
.venv/bin/python -c "import crosshair, z3, networkx; print('venv ok: crosshair', crosshair.__version__, 'z3', z3.get_version_string())"
